"""Helpers shared by C30 and C31 (Datadog search syntax): rendering of the harness' tree JSON as Gallina
terms of Model/DdNode.v, and the query / event generators."""
from vlib import js, ji, jf, jo, ja, coq_z


def hx(s):
    if isinstance(s, str):
        s = s.encode("utf-8")
    return '(hx "%s")' % bytes(s).hex()


def coq_cval(v):
    if "u" in v:
        return "CUnb"
    if "s" in v:
        return "(CStr %s)" % hx(v["s"])
    if "i" in v:
        return "(CInt %s)" % coq_z(v["i"])
    return "(CFloat (f64_of_bits 0x%s))" % v["f"]


OPS = {"gt": "Gt", "lt": "Lt", "gte": "Gte", "lte": "Lte"}


def coq_bool(b):
    return "true" if b else "false"


def coq_node(t):
    k = t["k"]
    if k == "all":
        return "NAll"
    if k == "none":
        return "NNone"
    if k == "exists":
        return "(NExists %s)" % hx(t["attr"])
    if k == "missing":
        return "(NMissing %s)" % hx(t["attr"])
    if k == "range":
        return "(NRange %s %s %s %s %s)" % (hx(t["attr"]), coq_cval(t["lo"]), coq_bool(t["li"]), coq_cval(t["hi"]),
                                           coq_bool(t["ui"]))
    if k == "cmp":
        return "(NCmp %s %s %s)" % (hx(t["attr"]), OPS[t["op"]], coq_cval(t["v"]))
    if k in ("term", "quoted", "prefix", "wild"):
        c = {"term": "NTerm", "quoted": "NQuoted", "prefix": "NPrefix", "wild": "NWild"}[k]
        return "(%s %s %s)" % (c, hx(t["attr"]), hx(t["v"]))
    if k == "not":
        return "(NNot %s)" % coq_node(t["n"])
    if k in ("and", "or"):
        return "(NBool %s [%s])" % ("BAnd" if k == "and" else "BOr", "; ".join(coq_node(x) for x in t["ns"]))
    raise ValueError("bad tree %r" % (t,))


def coq_tree_opt(t):
    """"err" -> None"""
    if isinstance(t, str):
        return "None"
    return "(Some %s)" % coq_node(t)


def walk(t):
    """all nodes of a tree"""
    if isinstance(t, str):
        return
    yield t
    if t["k"] == "not":
        yield from walk(t["n"])
    elif t["k"] in ("and", "or"):
        for x in t["ns"]:
            yield from walk(x)


# ------------------------------------------------------------------------------------------------
# C31: events and queries over a small vocabulary
# ------------------------------------------------------------------------------------------------

STRV = ["foo", "bar", "foo bar", "foo-bar baz", "5", "10", "1.5", "a", "hello world", "Foo", "x:y", "", "foobar",
        "hello foo-bar world", "b", "tag1", "héllo wörld", "a\nb", "bar_baz foo.bar", "-3", "c"]
INTV = [5, 10, -3, 0, 7, 1, 2, 100]
FLOATV = [1.5, 2.0, -0.25, 10.0, 0.5, 5.0, 7.25, 0.0]
TAGV = ["tag1:foo", "tag1:5", "tag1:10", "tag2:bar", "tag1", "tag2:foo", "x", "tag1:foo bar", "tag1:a:b", "tag2:5",
        "tag1:a", "tag1:c", "tag2:zzz", "tag2", "tag1:", "other:foo", "tag1:foobar", "tag1:1.5"]


def scalar(rng):
    r = rng.random()
    if r < 0.45:
        return js(rng.choice(STRV))
    if r < 0.65:
        return ji(rng.choice(INTV))
    if r < 0.85:
        return jf(rng.choice(FLOATV))
    if r < 0.92:
        return rng.choice([True, False])
    return None


def attr_value(rng, depth=1):
    r = rng.random()
    if r < 0.7 or depth <= 0:
        return scalar(rng)
    if r < 0.88:
        return ja([scalar(rng) for _ in range(rng.randint(0, 3))])
    return jo([(k, attr_value(rng, depth - 1)) for k in ("c", "d") if rng.random() < 0.7])


def tags_value(rng):
    r = rng.random()
    if r < 0.82:
        xs = [js(rng.choice(TAGV)) for _ in range(rng.randint(0, 4))]
        if rng.random() < 0.1:
            xs.insert(rng.randint(0, len(xs)), scalar(rng))
        return ja(xs)
    if r < 0.9:
        return js(rng.choice(TAGV))
    return attr_value(rng)


def event(rng):
    kvs = []
    if rng.random() < 0.7:
        kvs.append(("a", attr_value(rng)))
    if rng.random() < 0.6:
        kvs.append(("b", jo([(k, attr_value(rng)) for k in ("c", "d") if rng.random() < 0.75])
                    if rng.random() < 0.85 else scalar(rng)))
    if rng.random() < 0.75:
        kvs.append(("tags", tags_value(rng)))
    for k in ("host", "service", "source"):
        if rng.random() < 0.5:
            kvs.append((k, scalar(rng)))
    if rng.random() < 0.7:
        kvs.append(("message", scalar(rng) if rng.random() < 0.85 else ja([scalar(rng)])))
    if rng.random() < 0.45:
        cust = []
        if rng.random() < 0.7:
            cust.append(("title", scalar(rng)))
        if rng.random() < 0.6:
            cust.append(("error", jo([(k, scalar(rng)) for k in ("message", "stack") if rng.random() < 0.7])))
        kvs.append(("custom", jo(cust)))
    if rng.random() < 0.08:
        kvs.append(("_default_", scalar(rng)))
    return jo(kvs)


FIELDS = ["@a", "@b.c", "@b", "tag1", "tag2", "host", "service", "message", "custom.title", "tags", None, None,
          "@zz", "source", "@a.c", "custom.error.message"]
BAD_FIELDS = ["@a..b", "@a.", "@.", "@a\\ b", "@a\\[0\\]", "@"]
QV = ["foo", "bar", "5", "10", "1.5", "a", "hello", "world", "foo\\-bar", "baz", "Foo", "tag1", "x\\:y", "b", "foobar",
      "héllo", "\\-3", "c", "true", "null", "2", "7.25", "0.5", "tag1\\:foo", "foo\\ bar"]
QPHRASE = ["foo bar", "foo", "hello world", "x:y", "", "tag1:foo", "a\nb", "5"]
QWILD = ["*", "*oo", "f*o", "f*", "*o*", "f?o", "*bar", "foo*baz", "tag1*", "*:*o", "h*d", "1*", "*5", "f**"]
QNUM = ["5", "10", "1.5", "\\-3", "-3", "0", "7", "2.0", "7.25", "0.5", "1E1", "100", "-0.25"]
QCMPV = QNUM + ["a", "foo", "c", "b", "bar", "Foo", "zzz"]
QRANGEV = QCMPV + ["*", "*", "\"a\"", "\"foo\""]
CMPOPS = [">", ">=", "<", "<="]


def fld(f):
    return "" if f is None else f + ":"


def leaf(rng, f=None, fields=FIELDS):
    """(query text, field) for one leaf query"""
    if f is None:
        f = rng.choice(fields)
    r = rng.random()
    if r < 0.22:
        return fld(f) + rng.choice(QV), f
    if r < 0.32:
        return fld(f) + '"' + rng.choice(QPHRASE) + '"', f
    if r < 0.42:
        return fld(f) + rng.choice(QV) + "*", f
    if r < 0.55:
        return fld(f) + rng.choice(QWILD), f
    if r < 0.72:
        return fld(f) + rng.choice(CMPOPS) + rng.choice(QCMPV), f
    if r < 0.88:
        br = rng.choice(["[]", "{}"])
        return fld(f) + "%s%s TO %s%s" % (br[0], rng.choice(QRANGEV), rng.choice(QRANGEV), br[1]), f
    g = f if f is not None else "_default_"
    return ("_exists_:" if rng.random() < 0.6 else "_missing_:") + g, f


def query(rng, depth):
    if depth <= 0 or rng.random() < 0.3:
        return leaf(rng)[0]
    r = rng.random()
    if r < 0.3:
        return rng.choice(["NOT (%s)", "-(%s)", "NOT %s", "NOT (%s)"]) % query(rng, depth - 1)
    n = rng.choice([2, 2, 2, 3])
    op = rng.choice([" AND ", " OR ", " ", " && ", " || "])
    return op.join("(%s)" % query(rng, depth - 1) for _ in range(n))


# ------------------------------------------------------------------------------------------------
# C30: query texts generated from the PEG (grammar.pest), with every escape-worthy character
# ------------------------------------------------------------------------------------------------

SPECIALS = list(':+-=><!(){}[]^"~*?\\/')
WS = [" ", " ", " ", "  ", "\t", "\n", "\r", " \t "]
PLAIN = list("abcxyz019_.@,;'%#&|$") + ["é", "日", "ab", "foo", "bar", "\xa0", "\u3000", "—"]
KEYWORDISH = ["AND", "OR", "NOT", "ANDROID", "ORange", "NOTE", "&&", "||", "TO", "UNICODE3000", "xUNICODE3000", "E",
              "inf", "nan", "_exists_", "_missing_", "_default_"]


def esc_char(rng):
    """ESC_CHAR: a backslash and any character"""
    r = rng.random()
    if r < 0.7:
        return "\\" + rng.choice(SPECIALS)
    if r < 0.8:
        return "\\" + rng.choice([" ", "\t"])
    return "\\" + rng.choice(PLAIN + ["A", "N", "O", "1", "-"])


def term_text(rng, safe=False, glob=False, maxlen=5):
    """TERM (or TERM_GLOB when glob): start char + TERM_CHAR*; `safe` = no whitespace / keyword hazards"""
    n = rng.randint(1, maxlen)
    out = []
    for i in range(n):
        r = rng.random()
        if r < 0.55:
            out.append(rng.choice(PLAIN))
        elif r < 0.8:
            e = esc_char(rng)
            if safe and e[1] in " \t":
                e = "\\:"
            out.append(e)
        elif r < 0.88 and i > 0:
            out.append(rng.choice("-+="))
        elif r < 0.94 and glob:
            out.append(rng.choice("*?"))
        elif not safe:
            out.append(rng.choice(KEYWORDISH))
        else:
            out.append(rng.choice(PLAIN))
    if glob and not any(x in ("*", "?") for x in out):
        out.insert(rng.randint(0, len(out)), rng.choice("*?"))
    return "".join(out)


def phrase_text(rng):
    n = rng.randint(0, 5)
    out = []
    for _ in range(n):
        r = rng.random()
        if r < 0.4:
            out.append(rng.choice(PLAIN))
        elif r < 0.6:
            out.append(rng.choice([" ", " ", "\t", "\n"]))
        elif r < 0.8:
            out.append(rng.choice([c for c in SPECIALS if c not in '"\\']))
        elif r < 0.9:
            out.append(rng.choice(['\\"', "\\\\", "\\a", "\\ "]))
        else:
            out.append(rng.choice(KEYWORDISH))
    return '"' + "".join(out) + '"'


NUMS = ["0", "1", "5", "10", "-3", "\\-3", "1.5", "2.0", "-0.25", "007", "1E5", "1E-2", "1.5E3", "9223372036854775807",
        "9223372036854775808", "-9223372036854775808", "1.0", "100.50", "-0", "-0.0", "3.14159", "0.1", "1E400",
        "123456789012345678901234567890", "1.", "5E", "4.5E\\-1"]
RANGE_ATOMS = NUMS + ["*", "a", "abc", "\"a\"", "\"1\"", "\"*\"", "\"\"a\"\"", "inf", "nan", "NaN", "+5", "-inf", "1e5",
                      ".5", "5.", "1_0", "a:b", "a\\:b", "\\*", "AND", "TO", "x-y", "é", "(a)", "a\\", "\"", "\"\"",
                      "infinity", "+nan", "1e", "e5", "0x10", "--1", "+-1", "1.5.2", "1e+5", "1E+05", "9e999", "1e-999",
                      "00000000000000000000000000001", "0.000000000000000000000000000000001", "a*", "?"]


def field_text(rng, safe=False):
    r = rng.random()
    if safe or r < 0.6:
        return rng.choice(["f", "foo", "@a", "@b.c", "host", "service", "tag1", "a.b", "x_y", "é", "@a-b", "f1", "a/b"])
    if r < 0.75:
        return rng.choice(["_exists_", "_missing_", "_default_", "\\_exists_", "\\_default_", "\\_missing_"])
    return term_text(rng, maxlen=3)


def sp(rng, p=0.15):
    """optional whitespace where the grammar skips it"""
    return rng.choice(WS) if rng.random() < p else ""


def value_text(rng, safe=False):
    r = rng.random()
    if r < 0.06:
        return "*"
    if r < 0.2:
        return phrase_text(rng)
    if r < 0.32:
        return term_text(rng, safe) + "*"
    if r < 0.47:
        op = rng.choice([">", ">=", "<", "<="])
        return op + (rng.choice(NUMS) if rng.random() < 0.6 else term_text(rng, safe, maxlen=3))
    if r < 0.62:
        mixed = (not safe) and rng.random() < 0.04
        lb = rng.choice("[{")
        rb = {"[": "]", "{": "}"}[lb] if not mixed else {"[": "}", "{": "]"}[lb]
        a, b = rng.choice(RANGE_ATOMS), rng.choice(RANGE_ATOMS)
        return lb + sp(rng) + a + rng.choice([" ", " ", "  ", "\t"]) + "TO" + rng.choice([" ", " ", "", "\n"]) + b + sp(rng) + rb
    if r < 0.85:
        return term_text(rng, safe)
    return term_text(rng, safe, glob=True)


def clause_text(rng, depth, safe=False):
    r = rng.random()
    if r < 0.04:
        return "*:*"
    f = (field_text(rng, safe) + ":" + sp(rng, 0.05)) if rng.random() < 0.45 else ""
    if r < 0.8 or depth <= 0:
        return f + value_text(rng, safe)
    return f + "(" + sp(rng) + query_text(rng, depth - 1, safe) + sp(rng) + ")"


def query_text(rng, depth, safe=False):
    n = rng.choice([1, 1, 2, 2, 3, 4])
    out = []
    for i in range(n):
        if i > 0:
            out.append(rng.choice(WS))
            r = rng.random()
            if r < 0.5:
                out.append(rng.choice(["AND", "OR", "&&", "||", "AND", "OR"]) + rng.choice(WS))
        r = rng.random()
        if r < 0.2 and not safe:
            # multiterm: a few bare terms
            out.append(rng.choice(WS).join(term_text(rng, safe, maxlen=3) for _ in range(rng.randint(1, 3))))
            continue
        if r < 0.4:
            out.append(rng.choice(["-", "NOT ", "+", "NOT", "- "]))
        out.append(clause_text(rng, depth, safe))
    return "".join(out)


MUT_POOL = SPECIALS + [" ", " ", "\t", "a", "1", "AND", "OR", "NOT", "TO", "&&", "||", "\\", "\\\\", "*:*", "é"]


def mutate_text(rng, q):
    cs = list(q)
    for _ in range(rng.randint(1, 3)):
        r = rng.random()
        i = rng.randint(0, len(cs))
        if r < 0.4:
            cs.insert(i, rng.choice(MUT_POOL))
        elif r < 0.7 and cs:
            del cs[min(i, len(cs) - 1)]
        elif cs:
            cs[min(i, len(cs) - 1)] = rng.choice(MUT_POOL)
    return "".join(cs)


# --- hazard analysis of a parsed tree (which recorded finding, if any, a round-trip failure belongs to) ---

RUST_WS = set("\t\n\x0b\x0c\r \x85\xa0\u1680\u2000\u2001\u2002\u2003\u2004\u2005\u2006\u2007\u2008\u2009\u200a"
              "\u2028\u2029\u202f\u205f\u3000")
INVALID = set('"()[]{}+-!:~^?*\\>=<')
WSCH = set(" \t\r\n")
KW = ("AND", "OR", "NOT", "&&", "||", "-")


def kw_prefixed(s):
    return s.startswith(KW)


def raw_term_safe(s):
    """s printed as is re-lexes as the single TERM s"""
    return (s != "" and not any(c in INVALID or c in WSCH for c in s) and not kw_prefixed(s)
            and "UNICODE3000" not in s)


def value_hazards(v, root_default_term=False):
    """hazards of a term / prefix / comparison string printed through lucene_escape"""
    hs = set()
    words = v.split(" ") if root_default_term else [v]
    for w in words:
        if w == "" or any(c in WSCH for c in w):
            hs.add("whitespace")
        if w.startswith(("AND", "OR", "NOT", "&&", "||")) or "UNICODE3000" in w:
            hs.add("keyword")
    return hs


def looks_int(s):
    """the text reads back as an i64"""
    import re
    return re.fullmatch(r"[+-]?[0-9]+", s) is not None and -2**63 <= int(s) < 2**63


def tree_hazards(t, fl):
    """set of hazard classes present in tree t; fl: {bits: display text}"""
    hs = set()

    def cv_haz(v, in_range):
        if "f" in v:
            txt = fl.get(v["f"], "")
            if looks_int(txt) or (not in_range and txt in ("inf", "-inf", "NaN")):
                hs.add("float-text")
        if "s" in v:
            s = v["s"]
            if in_range:
                # `[""a"" TO ..]` keeps one pair of quotes, `[\ TO ..]` (a lone backslash) is the empty string
                if (len(s) >= 3 and s[0] == '"' and s[-1] == '"') or s == "":
                    hs.add("string-bound")
            else:
                hs.update(value_hazards(s))
                import re
                if re.match(r"-?[0-9]", s):
                    hs.add("string-bound")

    def go(n, root, first=True):
        """first: n is printed at the very start of a (sub)query, where `multiterm` is tried before `clause`"""
        k = n["k"]
        if k in ("all",):
            return
        if k == "none":
            if not root:
                hs.add("nodocs-nested")
            return
        if k in ("exists", "missing"):
            if not raw_term_safe(n["attr"]):
                hs.add("attr-raw")
            return
        if k == "not":
            if n["n"]["k"] == "none":
                hs.add("nodocs-nested")
            go(n["n"], False, n["n"]["k"] in ("and", "or", "not"))
            return
        if k in ("and", "or"):
            for i, x in enumerate(n["ns"]):
                if k == "and" and x["k"] == "not" and x["n"]["k"] == "not":
                    hs.add("not-not")
                go(x, False, i == 0 or x["k"] in ("and", "or"))
            return
        a = n["attr"]
        if a != "_default_" and not raw_term_safe(a):
            hs.add("attr-raw")
        if a in ("_exists_", "_missing_") and k in ("term", "quoted"):
            hs.add("attr-raw")
        if k == "term":
            hs.update(value_hazards(n["v"], root and a == "_default_"))
        elif k == "prefix":
            hs.update(value_hazards(n["v"]))
        elif k == "wild":
            v = n["v"]
            if a == "_default_" and v == "*":
                hs.add("attr-raw")
            if (any(c in WSCH or (c in INVALID and c not in "*?-+=") for c in v) or v[:1] in ("-", "+", "=")
                    or kw_prefixed(v) or "UNICODE3000" in v or v == ""):
                hs.add("wildcard-raw")
            import re
            m = re.match(r"[^*?]+\?", v)
            if a == "_default_" and first and m:
                hs.add("wildcard-multiterm")
        elif k == "cmp":
            cv_haz(n["v"], False)
        elif k == "range":
            cv_haz(n["lo"], True)
            cv_haz(n["hi"], True)

    go(t, True)
    if t["k"] == "term" and t["attr"] == "_default_" and t["v"] != "" and all(c in RUST_WS for c in t["v"]):
        hs.add("unicode-blank")
    return hs
