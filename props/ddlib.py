"""Helpers shared by C30 and C31 (Datadog search syntax): rendering of the harness' tree JSON as Gallina
terms of Model/DdNode.v, and the query / event generators."""
from vlib import js, ji, jf, jo, ja, coq_z


def hx(s):
    if isinstance(s, str):
        s = s.encode("utf-8")
    return '(hx "%s")' % bytes(s).hex()


def coq_cval(v):
    if "u" in v:
        return "CUnb"
    if "s" in v:
        return "(CStr %s)" % hx(v["s"])
    if "i" in v:
        return "(CInt %s)" % coq_z(v["i"])
    return "(CFloat (f64_of_bits 0x%s))" % v["f"]


OPS = {"gt": "Gt", "lt": "Lt", "gte": "Gte", "lte": "Lte"}


def coq_bool(b):
    return "true" if b else "false"


def coq_node(t):
    k = t["k"]
    if k == "all":
        return "NAll"
    if k == "none":
        return "NNone"
    if k == "exists":
        return "(NExists %s)" % hx(t["attr"])
    if k == "missing":
        return "(NMissing %s)" % hx(t["attr"])
    if k == "range":
        return "(NRange %s %s %s %s %s)" % (hx(t["attr"]), coq_cval(t["lo"]), coq_bool(t["li"]), coq_cval(t["hi"]),
                                           coq_bool(t["ui"]))
    if k == "cmp":
        return "(NCmp %s %s %s)" % (hx(t["attr"]), OPS[t["op"]], coq_cval(t["v"]))
    if k in ("term", "quoted", "prefix", "wild"):
        c = {"term": "NTerm", "quoted": "NQuoted", "prefix": "NPrefix", "wild": "NWild"}[k]
        return "(%s %s %s)" % (c, hx(t["attr"]), hx(t["v"]))
    if k == "not":
        return "(NNot %s)" % coq_node(t["n"])
    if k in ("and", "or"):
        return "(NBool %s [%s])" % ("BAnd" if k == "and" else "BOr", "; ".join(coq_node(x) for x in t["ns"]))
    raise ValueError("bad tree %r" % (t,))


def coq_tree_opt(t):
    """"err" -> None"""
    if isinstance(t, str):
        return "None"
    return "(Some %s)" % coq_node(t)


def walk(t):
    """all nodes of a tree"""
    if isinstance(t, str):
        return
    yield t
    if t["k"] == "not":
        yield from walk(t["n"])
    elif t["k"] in ("and", "or"):
        for x in t["ns"]:
            yield from walk(x)


# ------------------------------------------------------------------------------------------------
# C31: events and queries over a small vocabulary
# ------------------------------------------------------------------------------------------------

STRV = ["foo", "bar", "foo bar", "foo-bar baz", "5", "10", "1.5", "a", "hello world", "Foo", "x:y", "", "foobar",
        "hello foo-bar world", "b", "tag1", "héllo wörld", "a\nb", "bar_baz foo.bar", "-3", "c"]
INTV = [5, 10, -3, 0, 7, 1, 2, 100]
FLOATV = [1.5, 2.0, -0.25, 10.0, 0.5, 5.0, 7.25, 0.0]
TAGV = ["tag1:foo", "tag1:5", "tag1:10", "tag2:bar", "tag1", "tag2:foo", "x", "tag1:foo bar", "tag1:a:b", "tag2:5",
        "tag1:a", "tag1:c", "tag2:zzz", "tag2", "tag1:", "other:foo", "tag1:foobar", "tag1:1.5"]


def scalar(rng):
    r = rng.random()
    if r < 0.45:
        return js(rng.choice(STRV))
    if r < 0.65:
        return ji(rng.choice(INTV))
    if r < 0.85:
        return jf(rng.choice(FLOATV))
    if r < 0.92:
        return rng.choice([True, False])
    return None


def attr_value(rng, depth=1):
    r = rng.random()
    if r < 0.7 or depth <= 0:
        return scalar(rng)
    if r < 0.88:
        return ja([scalar(rng) for _ in range(rng.randint(0, 3))])
    return jo([(k, attr_value(rng, depth - 1)) for k in ("c", "d") if rng.random() < 0.7])


def tags_value(rng):
    r = rng.random()
    if r < 0.82:
        xs = [js(rng.choice(TAGV)) for _ in range(rng.randint(0, 4))]
        if rng.random() < 0.1:
            xs.insert(rng.randint(0, len(xs)), scalar(rng))
        return ja(xs)
    if r < 0.9:
        return js(rng.choice(TAGV))
    return attr_value(rng)


def event(rng):
    kvs = []
    if rng.random() < 0.7:
        kvs.append(("a", attr_value(rng)))
    if rng.random() < 0.6:
        kvs.append(("b", jo([(k, attr_value(rng)) for k in ("c", "d") if rng.random() < 0.75])
                    if rng.random() < 0.85 else scalar(rng)))
    if rng.random() < 0.75:
        kvs.append(("tags", tags_value(rng)))
    for k in ("host", "service", "source"):
        if rng.random() < 0.5:
            kvs.append((k, scalar(rng)))
    if rng.random() < 0.7:
        kvs.append(("message", scalar(rng) if rng.random() < 0.85 else ja([scalar(rng)])))
    if rng.random() < 0.45:
        cust = []
        if rng.random() < 0.7:
            cust.append(("title", scalar(rng)))
        if rng.random() < 0.6:
            cust.append(("error", jo([(k, scalar(rng)) for k in ("message", "stack") if rng.random() < 0.7])))
        kvs.append(("custom", jo(cust)))
    if rng.random() < 0.08:
        kvs.append(("_default_", scalar(rng)))
    return jo(kvs)


FIELDS = ["@a", "@b.c", "@b", "tag1", "tag2", "host", "service", "message", "custom.title", "tags", None, None,
          "@zz", "source", "@a.c", "custom.error.message"]
BAD_FIELDS = ["@a..b", "@a.", "@.", "@a\\ b", "@a\\[0\\]", "@"]
QV = ["foo", "bar", "5", "10", "1.5", "a", "hello", "world", "foo\\-bar", "baz", "Foo", "tag1", "x\\:y", "b", "foobar",
      "héllo", "\\-3", "c", "true", "null", "2", "7.25", "0.5", "tag1\\:foo", "foo\\ bar"]
QPHRASE = ["foo bar", "foo", "hello world", "x:y", "", "tag1:foo", "a\nb", "5"]
QWILD = ["*", "*oo", "f*o", "f*", "*o*", "f?o", "*bar", "foo*baz", "tag1*", "*:*o", "h*d", "1*", "*5", "f**"]
QNUM = ["5", "10", "1.5", "\\-3", "-3", "0", "7", "2.0", "7.25", "0.5", "1E1", "100", "-0.25"]
QCMPV = QNUM + ["a", "foo", "c", "b", "bar", "Foo", "zzz"]
QRANGEV = QCMPV + ["*", "*", "\"a\"", "\"foo\""]
CMPOPS = [">", ">=", "<", "<="]


def fld(f):
    return "" if f is None else f + ":"


def leaf(rng, f=None, fields=FIELDS):
    """(query text, field) for one leaf query"""
    if f is None:
        f = rng.choice(fields)
    r = rng.random()
    if r < 0.22:
        return fld(f) + rng.choice(QV), f
    if r < 0.32:
        return fld(f) + '"' + rng.choice(QPHRASE) + '"', f
    if r < 0.42:
        return fld(f) + rng.choice(QV) + "*", f
    if r < 0.55:
        return fld(f) + rng.choice(QWILD), f
    if r < 0.72:
        return fld(f) + rng.choice(CMPOPS) + rng.choice(QCMPV), f
    if r < 0.88:
        br = rng.choice(["[]", "{}"])
        return fld(f) + "%s%s TO %s%s" % (br[0], rng.choice(QRANGEV), rng.choice(QRANGEV), br[1]), f
    g = f if f is not None else "_default_"
    return ("_exists_:" if rng.random() < 0.6 else "_missing_:") + g, f


def query(rng, depth):
    if depth <= 0 or rng.random() < 0.3:
        return leaf(rng)[0]
    r = rng.random()
    if r < 0.3:
        return rng.choice(["NOT (%s)", "-(%s)", "NOT %s", "NOT (%s)"]) % query(rng, depth - 1)
    n = rng.choice([2, 2, 2, 3])
    op = rng.choice([" AND ", " OR ", " ", " && ", " || "])
    return op.join("(%s)" % query(rng, depth - 1) for _ in range(n))
