"""C17 — target faults are contained."""
import corevrl as cv
from corevrl import lit, ev_field, set_field, mark, f
from vlib import ji, js, jo, ja
import C16

ID = "C17"
THEOREMS = ["C17_rejected_read_is_missing", "C17_missing_read_reference", "C17_rejected_write_leaves_target",
            "C17_rejected_delete_leaves_target", "C17_unreadable_root_fails", "C17_example"]
MANIFEST = {
    "level": "proof",
    "technique": "Coq lemmas on a hand model of the runtime with a Target fault schedule + differential correspondence under injected faults + err-vs-skip reference runs on the implementation",
    "text": "Closed Coq theorems: under the fault schedule model a rejected read yields exactly what a read of an absent "
            "location yields (null / exists=false), a rejected write or deletion leaves event, metadata and variables "
            "unchanged (the assignment still yields its value, del yields null), and an unreadable root ends the run with an "
            "error before anything runs. The same fault schedules are injected into the real run through a wrapping Target "
            "and outcome, event, metadata, variables and operation log are compared with the model; the oracle compares the "
            "run under rejecting faults with a reference run where the same operations silently do nothing. Panics are "
            "caught by the harness and reported.",
    "note": "Trusted: Coq kernel + vm_compute; hand model Model/Eval.v (tie = correspondence). 'never panics' is judged on "
            "the implementation (catch_unwind) and by the model's explicit Panic outcome; there is no separate closed theorem "
            "for panic-freedom under faults (partial). No axioms.",
    "design_ref": "DESIGN.md section 5 C17",
}


def gen_targeted(run, n):
    rng = run.rng
    base = C16.gen_targeted(run, n // 4) + [dict(c, kind="targeted") for c in cv.gen_random_cases(run, n // 4)]
    # programs that never touch the target: the runtime's own root read is then the ONLY target operation,
    # and a target whose root cannot be read must still make the run end with an error
    free = [[lit(True)], [("assign", ("tvar", "x", []), lit(ji(1))), ("op", "add", ("var", "x"), lit(ji(1)))],
            [("call", "is_null", False, [lit(js("abc"))])],
            [("if", [lit(True)], [lit(js("yes"))], [lit(js("no"))])],
            [("assign", ("tvar", "x", []), ("arr", [lit(ji(1)), lit(ji(2))])), ("closure", "map_values", ("var", "x"), ["v"], [("var", "v")])]]
    for ast in free:
        base.append({"kind": "targeted", "ast": ast, "event": cv.rand_event(rng), "meta": jo([]), "vars": ["x", "v"],
                     "meta_info": {"ctx": ["target-free"]}, "force_faults": [True]})
        base.append({"kind": "targeted", "ast": ast, "event": cv.rand_event(rng), "meta": jo([]), "vars": ["x", "v"],
                     "meta_info": {"ctx": ["target-free"]}, "force_faults": [False, True]})
    cases = []
    pid = 0
    for b in base:
        k = rng.random()
        if "force_faults" in b:
            faults = b["force_faults"]
        elif k < 0.5:
            pos = rng.randint(0, 9)
            faults = [False] * pos + [True]
        else:
            faults = [rng.random() < 0.3 for _ in range(rng.randint(1, 14))]
        for mode in ("err", "skip"):
            c = dict(b, faults=faults, fault_mode=mode, pair=pid, meta_info={"ctx": ["faults:%d" % sum(faults)]})
            cases.append(c)
        pid += 1
    return cases


_seen = {}


def oracle(case, out):
    key = case["pair"]
    view = (out["result"] if "error" not in out["result"] else {"error": True}, out["event"], out["meta"], out["vars"])
    if key not in _seen:
        _seen[key] = view
        return None
    ref = _seen.pop(key)
    if ref != view:
        return ("a run whose target rejects operations %r differs from the run where the same operations silently do "
                "nothing / read as missing: %r vs %r" % (case["faults"], ref, view))
    if case["faults"] and case["faults"][0] and "error" not in out["result"]:
        return "the event root could not be read but the run did not end with an error"
    return None


def harness_case(case):
    h = cv.harness_case_plain(case)
    return h


def main(run, args):
    _seen.clear()
    return cv.standard_main(run, ID, THEOREMS, MANIFEST, gen_targeted, oracle, args)
