"""C24 — Key-value, logfmt and CSV encoders round-trip."""
import vlib
from vlib import coq_hex, coq_bool

ID = "C24"
THEOREMS = [
    "C24_kv_roundtrip", "C24_logfmt_roundtrip", "C24_kv_backslash_refuted", "C24_kv_newline_refuted",
    "C24_kv_squote_refuted", "C24_kv_delim_refuted", "C24_kv_empty_object_refuted",
    "C24_kv_quoted_string", "C24_kv_unquoted_string", "C24_kv_fuel_sufficient",
    "C24_csv_roundtrip", "C24_csv_bom_refuted", "C24_nonvacuous",
]
IMPORTS = ("From Coq Require Import List NArith ZArith String.\n"
           "From VRL Require Import Base.Bytes Base.Lit Model.CodecUtf8 Model.KeyValue Model.Csv Corr.C24.\n"
           "Local Open Scope string_scope.")
MANIFEST = {
    "level": "proof",
    "technique": "Coq proofs (induction over the entry list / the characters, through the nom parser re-expressed as "
                 "fuelled recursive descent, and through the csv-core reader automaton) on hand models of "
                 "encode_key_value.rs, parse_key_value.rs and the csv writer/reader + differential correspondence vs the "
                 "stdlib functions run through compiled VRL programs",
    "text": "Closed Coq theorems: parse_key_value kvd fd ws sk (encode_key_value kvd fd o) = o for every key-sorted flat "
            "object of non-empty strings, every non-empty delimiter pair (key-value delimiter not starting with space/tab, "
            "field delimiter \" \" or not starting with a space), both whitespace modes and both accept_standalone_key "
            "values, outside four decidable classes in which the round trip is refuted on the model and on the "
            "implementation (unquoted string with a backslash; string with a newline; unquoted string starting with a "
            "single quote; unquoted string containing the first character of a delimiter) and the empty object; the "
            "logfmt instance; parse_csv d (encode_csv d l) = l for every list of byte strings and every one-byte delimiter "
            "other than quote/CR/LF unless the first field is unquoted and starts with EF BB BF (the reader strips a "
            "UTF-8 BOM; refuted). Encoders are compared byte for byte and parsers value for value with the "
            "implementation (the parsers also on malformed text); parse(encode x) = x is searched directly on the "
            "implementation under the property's own preconditions.",
    "note": "Text is modelled as a list of Unicode scalar values; the UTF-8 layer (from_utf8_lossy / chars / encoding) is "
            "applied in the correspondence with Model/CodecUtf8.v. A BTreeMap is its key-sorted entry list. nom and the "
            "csv crate are modelled from their sources (nom 8.0.0 escaped/take_until/many_m_n/separated_list1, csv-core "
            "0.1.13 NFA + BOM stripping); the csv DFA is assumed equal to the NFA it is compiled from. Known findings: "
            "C24-backslash, C24-newline, C24-squote, C24-delim, C24-empty-object, C24-csv-bom. No axioms "
            "(Print Assumptions: closed).",
    "design_ref": "DESIGN.md section 5 C24",
}

# ------------------------------------------------------------------------------------------------
# alphabet and generators
# ------------------------------------------------------------------------------------------------
FULL = ["a", "b", "n", " ", '"', "'", "\\", "=", ":", ",", "|", "\t", "\n", "\r", "é", "日", ">", "\u00a0"]
PLAIN = ["a", "b", "n", "é", "日", "x", "1"]
MILD = PLAIN + [" ", '"', "=", "\t", "\r", "\u00a0", ">"]      # quoting without any known class (for = / space)
DELIMS = [("=", " "), (":", ","), ("=>", "|"), (":", "\t"), (": ", ", ")]
ODD_DELIMS = ["", " ", "  ", "a", "ab", " |", "\t", "=", '"', "'", "\\", "é"]
WS_CHARS = set(range(9, 14)) | {32, 133, 160, 5760, 8232, 8233, 8239, 8287, 12288} | set(range(8192, 8203))


def h(s):
    return (s.encode("utf-8") if isinstance(s, str) else bytes(s)).hex()


def rand_str(rng, lo, hi, palette=None):
    if palette is None:
        r = rng.random()
        palette = PLAIN if r < 0.25 else MILD if r < 0.5 else FULL
    return "".join(rng.choice(palette) for _ in range(rng.randint(lo, hi)))


def rand_obj(rng, lo_len, n_lo=1, n_hi=4):
    d = {}
    r = rng.random()
    pal = PLAIN if r < 0.15 else MILD if r < 0.35 else None
    for _ in range(rng.randint(n_lo, n_hi)):
        k = rand_str(rng, lo_len, 6, pal)
        d[k] = rand_str(rng, lo_len, 6, pal)
    return d


def obj_json(d):
    items = sorted(((k.encode("utf-8") if isinstance(k, str) else bytes(k)),
                    (v.encode("utf-8") if isinstance(v, str) else bytes(v))) for k, v in d.items())
    return {"o": [[k.hex(), {"b": v.hex()}] for k, v in items]}


def kv_case(d, kvd, fd, ws="lenient", sk=True, defaults=False, logfmt=False):
    if logfmt:
        return {"op": "logfmt", "o": obj_json(d), "kvd": h("="), "fd": h(" "), "ws": "lenient", "sk": True}
    c = {"op": "kv", "o": obj_json(d), "kvd": h(kvd), "fd": h(fd), "ws": ws, "sk": sk}
    if defaults:
        c["defaults"] = True
    return c


def rand_text(rng, kvd, fd):
    """malformed / near-valid key-value text"""
    if rng.random() < 0.4:
        return rand_str(rng, 0, 12, FULL + [kvd, fd])
    toks = []
    for _ in range(rng.randint(1, 4)):
        k = rand_str(rng, 0, 3, PLAIN + ["'", "\\", " "])
        v = rand_str(rng, 0, 3, PLAIN + ["'", "\\", " ", '"'])
        q1 = rng.choice(["", "", '"', "'"])
        q2 = rng.choice(["", "", '"', "'"])
        sp = rng.choice(["", "", " ", "\t", "  "])
        form = rng.random()
        if form < 0.7:
            toks.append(q1 + k + q1 + sp + kvd + rng.choice(["", "", " "]) + q2 + v + (q2 if rng.random() < 0.9 else ""))
        elif form < 0.85:
            toks.append(q1 + k + q1)
        else:
            toks.append(k + kvd)
    sep = fd if rng.random() < 0.8 else rng.choice([fd + fd, " " + fd, fd + " ", " "])
    return rng.choice(["", "", " "]) + sep.join(toks) + rng.choice(["", "", " ", fd, "\n"])


CSV_ALPHA = ["a", "b", " ", '"', ",", ";", "\t", "\n", "\r", "é", "\ufeff", "'", "\\"]


def gen_cases(run, n):
    rng = run.rng
    cases = []
    for _ in range(n):
        r = rng.random()
        if r < 0.40:                                    # round trip, property preconditions hold (or empty object)
            kvd, fd = rng.choice(DELIMS)
            d = rand_obj(rng, 1, 0 if rng.random() < 0.01 else 1)
            m = rng.random()
            if m < 0.2:
                cases.append(kv_case(d, "=", " ", logfmt=True))
            elif m < 0.3:
                cases.append(kv_case(d, "=", " ", defaults=True))
            else:
                ws = "strict" if rng.random() < 0.25 else "lenient"
                sk = rng.random() >= 0.25
                cases.append(kv_case(d, kvd, fd, ws, sk))
        elif r < 0.50:                                  # correspondence only: empty strings, odd delimiters, bad UTF-8
            d = rand_obj(rng, 0)
            if rng.random() < 0.3:
                d[rand_str(rng, 1, 3, PLAIN)] = bytes(rng.choice([0x61, 0xff, 0xc3, 0xe6, 0x97, 0x20, 0x80])
                                                      for _ in range(rng.randint(1, 4)))
            if rng.random() < 0.5:
                kvd, fd = rng.choice(DELIMS)
            else:
                kvd, fd = rng.choice(ODD_DELIMS[3:] + ["=", ":"]), rng.choice(ODD_DELIMS[1:])
            cases.append(kv_case(d, kvd, fd, "strict" if rng.random() < 0.3 else "lenient", rng.random() < 0.7))
        elif r < 0.72:                                  # parser alone on malformed / near-valid text
            if rng.random() < 0.75:
                kvd, fd = rng.choice(DELIMS)
            else:
                kvd, fd = rng.choice(ODD_DELIMS[3:] + ["=", ":"]), rng.choice(ODD_DELIMS[1:])
            t = rand_text(rng, kvd, fd)
            if rng.random() < 0.15:
                cases.append({"op": "logfmtparse", "t": h(t), "kvd": h("="), "fd": h(" "), "ws": "lenient", "sk": True})
            else:
                cases.append({"op": "kvparse", "t": h(t), "kvd": h(kvd), "fd": h(fd),
                              "ws": "strict" if rng.random() < 0.3 else "lenient", "sk": rng.random() < 0.7})
        elif r < 0.90:                                  # csv round trip
            k = 0 if rng.random() < 0.03 else rng.randint(1, 5)
            l = []
            for _ in range(k):
                if rng.random() < 0.1:
                    l.append(bytes(rng.choice([0xef, 0xbb, 0xbf, 0x61, 0x2c, 0x22, 0xff]) for _ in range(rng.randint(0, 4))))
                else:
                    l.append(rand_str(rng, 0, 4, CSV_ALPHA).encode("utf-8"))
            dl = rng.choice([",", ";", "\t"]) if rng.random() < 0.93 else rng.choice(["", ",,", "é", "a", "|"])
            c = {"op": "csv", "l": [x.hex() for x in l], "d": h(dl)}
            if dl == "," and rng.random() < 0.3:
                c["defaults"] = True
            cases.append(c)
        else:                                           # csv reader alone
            t = rand_str(rng, 0, 10, CSV_ALPHA + ['"', ",", ","])
            if rng.random() < 0.2:
                t = "\ufeff" + t
            dl = rng.choice([",", ";", "\t"]) if rng.random() < 0.95 else rng.choice(["", ",,", "é"])
            cases.append({"op": "csvparse", "t": h(t), "d": h(dl)})
    return cases


# ------------------------------------------------------------------------------------------------
# rendering
# ------------------------------------------------------------------------------------------------
def coq_bytes_list(hs):
    return "[%s]" % "; ".join(coq_hex(x) for x in hs)


def coq_ival(j):
    if j is True:
        return "ITrue"
    if isinstance(j, dict) and "b" in j:
        return "(IStr %s)" % coq_hex(j["b"])
    if isinstance(j, dict) and "a" in j and all(isinstance(x, dict) and "b" in x for x in j["a"]):
        return "(IArr %s)" % coq_bytes_list([x["b"] for x in j["a"]])
    return "IOther"


def coq_eres(e):
    if e is None:
        return "ENone"
    if "ok" in e and isinstance(e["ok"], dict) and "b" in e["ok"]:
        return "(EOk %s)" % coq_hex(e["ok"]["b"])
    return "EErr"


def coq_dres(d):
    if d is None:
        return "DNone"
    if "ok" in d and isinstance(d["ok"], dict) and "o" in d["ok"]:
        return "(DOk [%s])" % "; ".join("(%s, %s)" % (coq_hex(k), coq_ival(v)) for k, v in d["ok"]["o"])
    return "DErr"


def coq_cres(d):
    if d is None:
        return "CNone"
    if "ok" in d and isinstance(d["ok"], dict) and "a" in d["ok"] and all(isinstance(x, dict) and "b" in x for x in d["ok"]["a"]):
        return "(COk %s)" % coq_bytes_list([x["b"] for x in d["ok"]["a"]])
    return "CErr"


def coq_ws(c):
    return "Strict" if c.get("ws") == "strict" else "Lenient"


def to_coq(c, o):
    op = c["op"]
    if op in ("kv", "logfmt"):
        ents = "[%s]" % "; ".join("(%s, %s)" % (coq_hex(k), coq_hex(v["b"])) for k, v in c["o"]["o"])
        return "CKv %s %s %s %s %s %s %s" % (ents, coq_hex(c["kvd"]), coq_hex(c["fd"]), coq_ws(c),
                                          coq_bool(c.get("sk", True)), coq_eres(o["enc"]), coq_dres(o["dec"]))
    if op in ("kvparse", "logfmtparse"):
        return "CKvParse %s %s %s %s %s %s" % (coq_hex(c["t"]), coq_hex(c["kvd"]), coq_hex(c["fd"]), coq_ws(c),
                                             coq_bool(c.get("sk", True)), coq_dres(o["dec"]))
    if op == "csv":
        return "CCsv %s %s %s %s" % (coq_bytes_list(c["l"]), coq_hex(c["d"]), coq_eres(o["enc"]), coq_cres(o["dec"]))
    if op == "csvparse":
        return "CCsvParse %s %s %s" % (coq_hex(c["t"]), coq_hex(c["d"]), coq_cres(o["dec"]))
    raise ValueError("unknown op")


# ------------------------------------------------------------------------------------------------
# known classes (mirror of the decidable predicates known_* of Model/KeyValue.v and Model/Csv.v)
# ------------------------------------------------------------------------------------------------
def _chars(hexs):
    return [ord(ch) for ch in bytes.fromhex(hexs).decode("utf-8", "replace")]


def _unq(s):
    return not any(ch in WS_CHARS or ch in (34, 61) for ch in s)


def kv_classes(c):
    if c["op"] not in ("kv", "logfmt"):
        return set()
    ents = [(_chars(k), _chars(v["b"])) for k, v in c["o"]["o"]]
    kvd, fd = _chars(c["kvd"]), _chars(c["fd"])
    cl = set()
    if not ents:
        cl.add("empty-object")
    for k, v in ents:
        for s, is_key in ((k, True), (v, False)):
            if 10 in s:
                cl.add("newline")
            if _unq(s):
                if 92 in s:
                    cl.add("backslash")
                if s[:1] == [39]:
                    cl.add("squote")
                if (fd and fd[0] in s) or (is_key and kvd and kvd[0] in s):
                    cl.add("delim")
    return cl


def csv_classes(c):
    if c["op"] != "csv" or not c["l"]:
        return set()
    f = bytes.fromhex(c["l"][0])
    d = bytes.fromhex(c["d"])
    if f.startswith(b"\xef\xbb\xbf") and not any(b in f for b in (d[:1] or b",") + b"\"\r\n"):
        return {"csv-bom"}
    return set()


def known_matcher(entry, case, out):
    cls = entry.get("match", {}).get("class")
    classes = kv_classes(case) | csv_classes(case)
    try:        # known_bom of Model/Csv.v: the encoded text itself begins with EF BB BF
        if case["op"] == "csv" and out["enc"]["ok"]["b"].startswith("efbbbf"):
            classes.add("csv-bom")
    except Exception:
        pass
    return cls in classes


def nontrivial(c):
    if c["op"] in ("kv", "logfmt"):
        return any(not _unq(_chars(k)) or not _unq(_chars(v["b"])) for k, v in c["o"]["o"]) or len(c["o"]["o"]) >= 2
    if c["op"] == "csv":
        return any(any(b in bytes.fromhex(x) for b in b',;\t"\r\n') for x in c["l"]) or len(c["l"]) >= 2
    return len(c.get("t", "")) >= 6


def extra_cov(cases, outs):
    n_pre = n_safe = 0
    for c in cases:
        if c["op"] in ("kv", "logfmt") and c["o"]["o"] and all(k and v["b"] for k, v in c["o"]["o"]):
            n_pre += 1
            if not kv_classes(c):
                n_safe += 1
    return {"kv_cases_under_property_preconditions": n_pre, "kv_cases_inside_theorem_domain": n_safe,
            "csv_roundtrip_cases": sum(1 for c in cases if c["op"] == "csv")}


def main(run, args):
    import checklib
    # shrinking must not wander into a known class (dropping every entry of a failing object ends at the
    # empty object, a known finding): only candidates outside the known classes are tried
    orig_candidates = checklib.shrink_candidates

    def candidates(c):
        out = []
        for d in orig_candidates(c):
            try:
                if kv_classes(d) | csv_classes(d):
                    continue
            except Exception:
                continue
            out.append(d)
        return out
    checklib.shrink_candidates = candidates
    n = 4000 if run.tier == "quick" else 80000
    if args.cases:
        n = args.cases
    return checklib.standard(run, ID, THEOREMS, IMPORTS, "kv", gen_cases, to_coq, n, nontrivial=nontrivial,
                             replay=args.replay, known_matcher=known_matcher, extra_cov=extra_cov)
