"""Stdlib-wide call stream shared by C03 (declared signature), C04 (no panic), C05 (prompt termination).

Every function of vrl::stdlib::all() (enumerated from the running implementation) is called with
  * its own documented examples (valid option combinations for free), and
  * generated argument tuples: per parameter a value of an accepted kind (mostly) or of any kind
    (sometimes), edge values, literal or runtime-typed (`.pN` event field) position, optional
    arguments present/absent.
The source is compiled by the real compiler; a call typed fallible is retried in its `!` form.
"""
import json
import struct

import corevrl as cv
import vlib
from vlib import ji, js, jo, ja, jf_bits, jts, jb

# nondeterministic / environment / network / logging functions: compiled (by their examples) but never judged on results
NONDET = {"now", "random_bool", "random_bytes", "random_float", "random_int", "uuid_v4", "uuid_v7", "get_hostname",
          "get_env_var", "http_request", "dns_lookup", "reverse_dns", "get_secret", "set_secret", "remove_secret",
          "set_semantic_meaning", "log", "get_timezone_name", "uuid_from_friendly_id", "get_enrichment_table_record",
          "find_enrichment_table_records"}
KBITS = {"BYTES": 2, "INTEGER": 4, "FLOAT": 8, "BOOLEAN": 16, "OBJECT": 32, "ARRAY": 64, "TIMESTAMP": 128, "REGEX": 256, "NULL": 512}
I64_MIN, I64_MAX = -2**63, 2**63 - 1

POOL = {
    "BYTES": [js(""), js("a"), js("abc"), js("hello world"), js("12"), js("-7"), js("1.5"), js("true"), js("é日本"), js("a,b,c"),
              js("k=v k2=v2"), js('{"a":1}'), js("2021-03-04T05:06:07Z"), js("127.0.0.1"), js("::1"), js("%41"), js("aGVsbG8="),
              js("x" * 300), js("\\"), js("a\nb"), js("1h"), js("10MiB"), js("https://u:p@example.com:8080/p?q=1#f"),
              jb(b"\xff\xfe"), js("0x1f"), js(" pad "), js("A_b-C d")],
    "INTEGER": [ji(x) for x in [0, 1, -1, 2, 3, 7, 10, 16, 36, 37, 64, 255, 256, 1000, 65536, -2, -100, 2**31, -2**31, 2**32, 2**53 + 1,
                                I64_MAX, I64_MIN, I64_MAX - 1, I64_MIN + 1, 1614834367, 10**12]],
    "FLOAT": [jf_bits(b) for b in [0x0, 0x8000000000000000, 0x3ff0000000000000, 0xbff8000000000000, 0x7ff0000000000000, 0xfff0000000000000,
                                   0x0000000000000001, 0x7fefffffffffffff, 0x4005bf0a8b145769, 0x3fe0000000000000, 0x43e0000000000000,
                                   0xc3e0000000000001, 0x4024000000000000, 0x3ff8000000000000, 0x412e848000000000]],
    "BOOLEAN": [True, False],
    "OBJECT": [jo([]), jo([("a", ji(1))]), jo([("a", jo([("b", js("x"))])), ("c", ja([ji(1), None]))]), jo([("k", js("v")), ("k2", js(""))]),
               jo([("key", js("a")), ("value", ji(1))]), jo([("a.b", ji(1))]), jo([("", ji(0))])],
    "ARRAY": [ja([]), ja([ji(1), ji(2), ji(3)]), ja([js("a"), js("b")]), ja([ji(1), js("a"), None, True]), ja([ja([ji(1)]), ja([])]),
              ja([jo([("key", js("a")), ("value", ji(1))])]), ja([js("a"), js("a"), js("b")]), ja([jf_bits(0x3ff8000000000000), ji(2)])],
    "TIMESTAMP": [jts(0), jts(1614834367 * 10**9 + 123456789), jts(-1), jts(253402300799 * 10**9), jts(-62135596800 * 10**9)],
    "REGEX": [{"r": b"a+".hex()}, {"r": b"^(?P<x>\\d+)$".hex()}, {"r": b".".hex()}, {"r": b"".hex()}],
    "NULL": [None],
}
ALLV = [v for vs in POOL.values() for v in vs]


def vbit(v):
    if v is None:
        return KBITS["NULL"]
    if isinstance(v, bool):
        return KBITS["BOOLEAN"]
    for t, k in (("b", "BYTES"), ("i", "INTEGER"), ("f", "FLOAT"), ("o", "OBJECT"), ("a", "ARRAY"), ("ts", "TIMESTAMP"), ("r", "REGEX")):
        if t in v:
            return KBITS[k]
    raise ValueError(v)


def list_functions():
    vlib.build_harness("stdfn")
    out = vlib.run_harness("stdfn", [{"op": "list"}], procs=1)[0]
    return out["functions"]


def lit_src(v):
    if isinstance(v, dict) and "ts" in v:
        return None
    if isinstance(v, dict) and "r" in v:
        pat = bytes.fromhex(v["r"]).decode()
        return "r'%s'" % pat if "'" not in pat else None
    try:
        return cv.vrl_lit(v)
    except Exception:
        return None


def gen_calls(rng, fns, per_fn):
    """yield call cases: {"fn", "plain", "bang", "event", "args": [(kw, value, mode, ok_kind)], "origin"}"""
    cases = []
    for fn in fns:
        name = fn["name"]
        if fn["closure"] or name in NONDET:
            continue
        params = fn["params"]
        for _ in range(per_fn):
            args = []
            ev = []
            style = rng.random()
            for pi, p in enumerate(params):
                if not p["required"] and rng.random() < 0.6:
                    continue
                allowed = [v for k, vs in POOL.items() if p["kind"] & KBITS[k] for v in vs]
                wrong = rng.random() < (0.12 if style < 0.8 else 0.5)
                v = rng.choice(ALLV) if (wrong or not allowed) else rng.choice(allowed)
                ok_kind = bool(vbit(v) & p["kind"])
                src = lit_src(v)
                mode = "lit" if (src is not None and rng.random() < (0.45 if ok_kind else 0.1)) else "field"
                if mode == "lit" and isinstance(v, dict) and "a" in v and len(v["a"]) < 100 and rng.random() < 0.35:
                    # the same array with a non-constant, precisely typed shape: unknown length, element kind = union
                    # of the element kinds (type_defs have separate branches for exact and for unknown-length arrays)
                    mode = "typed"
                    src = "values({%s})" % ", ".join('"k%02d": %s' % (i, lit_src(x)) for i, x in enumerate(v["a"]))
                if mode == "field":
                    ev.append(("p%d" % pi, v))
                    src = ".p%d" % pi
                args.append((p["kw"], v, mode, ok_kind, src))
            # positional for the leading required ones, keywords for the rest
            parts = []
            positional = True
            for pi, p in enumerate(params):
                a = [x for x in args if x[0] == p["kw"]]
                if not a:
                    positional = False
                    continue
                parts.append(a[0][4] if (positional and p["required"]) else "%s: %s" % (p["kw"], a[0][4]))
            body = ", ".join(parts)
            cases.append({"fn": name, "plain": "%s(%s)" % (name, body), "bang": "%s!(%s)" % (name, body), "event": jo(ev),
                          "args": [(a[0], a[1], a[2], a[3]) for a in args], "origin": "generated"})
    return cases


def factor_calls(rng, fns):
    """one-factor-at-a-time sweep: for every integer / float / array parameter of every function, every edge value of the
    pool at that parameter (arrays additionally as a non-constant typed expression), the other required parameters
    holding a random accepted value; so that a defect needing one particular edge value at one particular parameter
    does not depend on the luck of the random tuples"""
    cases = []
    for fn in fns:
        name = fn["name"]
        if fn["closure"] or name in NONDET:
            continue
        params = fn["params"]
        for fi, fp in enumerate(params):
            vals = []
            for kind in ("INTEGER", "FLOAT", "ARRAY"):
                if fp["kind"] & KBITS[kind]:
                    for v in POOL[kind]:
                        vals.append((v, "lit"))
                        if kind == "ARRAY":
                            vals.append((v, "typed"))
            for v, fmode in vals:
                args, ev = [], []
                for pi, p in enumerate(params):
                    if pi == fi:
                        val, mode = v, fmode
                    else:
                        if not p["required"]:
                            continue
                        allowed = [x for k, vs in POOL.items() if p["kind"] & KBITS[k] for x in vs]
                        val = rng.choice(allowed or ALLV)
                        mode = "lit" if rng.random() < 0.7 else "field"
                    src = lit_src(val)
                    if src is None or (mode == "lit" and pi == fi and rng.random() < 0.25):
                        mode = "field"
                    if mode == "typed":
                        src = "values({%s})" % ", ".join('"k%02d": %s' % (i, lit_src(x)) for i, x in enumerate(val["a"]))
                        if any(lit_src(x) is None for x in val["a"]):
                            mode = "field"
                    if mode == "field":
                        ev.append(("p%d" % pi, val))
                        src = ".p%d" % pi
                    args.append((p["kw"], val, mode, bool(vbit(val) & p["kind"]), src))
                parts, positional = [], True
                for pi, p in enumerate(params):
                    a = [x for x in args if x[0] == p["kw"]]
                    if not a:
                        positional = False
                        continue
                    parts.append(a[0][4] if (positional and p["required"]) else "%s: %s" % (p["kw"], a[0][4]))
                body = ", ".join(parts)
                cases.append({"fn": name, "plain": "%s(%s)" % (name, body), "bang": "%s!(%s)" % (name, body), "event": jo(ev),
                              "args": [(a[0], a[1], a[2], a[3]) for a in args], "origin": "generated"})
    return cases


def example_calls(fns):
    cases = []
    for fn in fns:
        for ex in fn["examples"]:
            if ex["skip"]:
                continue
            ev = jo([])
            if ex["input"]:
                try:
                    ev = to_vj(json.loads(ex["input"]))
                except Exception:
                    continue
            cases.append({"fn": fn["name"], "plain": ex["source"], "bang": None, "event": ev, "args": [], "origin": "example",
                          "deterministic": ex["deterministic"] and fn["name"] not in NONDET, "example_ok": ex["ok"]})
    return cases


def to_vj(x):
    if x is None or isinstance(x, bool):
        return x
    if isinstance(x, int):
        return ji(x)
    if isinstance(x, float):
        return jf_bits(struct.unpack("<Q", struct.pack("<d", x))[0])
    if isinstance(x, str):
        return js(x)
    if isinstance(x, list):
        return ja([to_vj(y) for y in x])
    if isinstance(x, dict):
        return jo([(k, to_vj(v)) for k, v in x.items()])
    raise ValueError(x)


def run_calls(cases, budget_ms=2000):
    """plain form first; a call the compiler types fallible (unhandled error) is retried with `!`."""
    first = [{"op": "call", "src": c["plain"].encode().hex(), "event": c["event"], "fn": c["fn"], "budget_ms": budget_ms} for c in cases]
    outs = vlib.run_harness("stdfn", first, timeout=1800)
    retry = []
    for i, (c, o) in enumerate(zip(cases, outs)):
        c["form"] = "plain"
        if o.get("compile") == "err" and c.get("bang"):
            retry.append(i)
    if retry:
        second = [{"op": "call", "src": cases[i]["bang"].encode().hex(), "event": cases[i]["event"], "fn": cases[i]["fn"], "budget_ms": budget_ms} for i in retry]
        outs2 = vlib.run_harness("stdfn", second, timeout=1800)
        for i, o in zip(retry, outs2):
            outs[i] = o
            cases[i]["form"] = "bang"
    return outs


def corpus_calls():
    import os
    path = os.path.join(vlib.VERIF, "corpus", "std", "calls.json")
    out = []
    for c in json.load(open(path)):
        out.append(dict(c, args=[], origin="generated" if "\n" not in c["plain"] else "example"))
    return out


def stream(run, per_fn):
    fns = list_functions()
    cases = corpus_calls() + example_calls(fns) + factor_calls(run.rng, fns) + gen_calls(run.rng, fns, per_fn)
    return fns, cases


def source_of(c):
    return c["bang"] if c.get("form") == "bang" else c["plain"]


def describe(c, o):
    return {"function": c["fn"], "source": source_of(c), "event": c["event"], "origin": c["origin"], "impl": {k: v for k, v in o.items() if k != "value"} if isinstance(o, dict) else o,
            "args": [{"kw": a[0], "value": a[1], "mode": a[2], "kind_accepted_by_parameter": a[3]} for a in c["args"]]}


def arg_is(c, kw, pred):
    return any(a[0] == kw and pred(a[1]) for a in c["args"])


def int_val(v):
    return int(v["i"]) if isinstance(v, dict) and "i" in v else None


# ------------------------------------------------------------------ judging

def single_call(c):
    """the case's source is exactly one call of c["fn"] (so a verdict can be attributed to that function)"""
    s = c["plain"].strip()
    return c["origin"] == "generated" or ((s.startswith(c["fn"] + "(") or s.startswith(c["fn"] + "!(")) and "\n" not in s and ";" not in s)


def classify(c, o):
    """-> list of (property, class) the outcome of this call violates"""
    out = []
    if not isinstance(o, dict):
        return out
    if "panic" in o or o.get("run_panic") or o.get("compile") == "panic":
        out.append(("C04", "panic"))
    if "crash" in o:
        out.append(("C04", "crash"))
        out.append(("C05", "crash"))
    if "timeout_ms" in o or "timeout" in o:
        out.append(("C05", "timeout"))
    if c["fn"] in NONDET or not single_call(c):
        return out
    src = source_of(c)
    if o.get("result") == "ok":
        if o.get("member") is False:
            out.append(("C03", "not-in-declared-type"))
        if o.get("in_return_kind") is False:
            out.append(("C03", "not-in-return-kind"))
        wrong = [a for a in c["args"] if a[2] == "field" and not a[3]]
        if wrong:
            out.append(("C03", "wrong-runtime-type-accepted"))
    if o.get("result") == "error" and "!" not in src and o.get("fallible") is False:
        out.append(("C03", "infallible-call-errors"))
    return out


def confirm_timeouts(cases, outs, budget_ms=15000):
    """a watchdog verdict under machine load is only kept when the call, run alone with a generous budget,
    still does not return"""
    idx = [i for i, o in enumerate(outs) if isinstance(o, dict) and ("timeout_ms" in o or "timeout" in o or "crash" in o)]
    for i in idx:
        c = cases[i]
        o2 = vlib.run_harness("stdfn", [{"op": "call", "src": source_of(c).encode().hex(), "event": c["event"], "fn": c["fn"],
                                          "budget_ms": budget_ms}], procs=1, timeout=120)[0]
        outs[i] = o2
    return len(idx)


def finding_id(prop, cls, fn):
    return "%s-%s-%s" % (prop, fn, cls)


def sweep(run, prop, per_fn, budget_ms):
    """run the stream; return (fns, cases, outs, violations of `prop` as list of (index, class))"""
    fns, cases = stream(run, per_fn)
    outs = run_calls(cases, budget_ms)
    confirm_timeouts(cases, outs)
    viol = []
    for i, (c, o) in enumerate(zip(cases, outs)):
        for p, cls in classify(c, o):
            if p == prop:
                viol.append((i, cls))
    return fns, cases, outs, viol


def report(run, prop, fns, cases, outs, viol, extra_known=None):
    """known findings are keyed by (function, class); everything else is a violation with its replay"""
    known = vlib.known_findings(prop)

    def matches(k, c, cls):
        m = k.get("match", {})
        if m.get("function") != c["fn"] or m.get("class") != cls:
            return False
        a = m.get("arg")
        if a:       # narrower entry: only calls whose argument <kw> is an integer >= min
            vals = [int_val(x[1]) for x in c["args"] if x[0] == a["kw"]]
            return bool(vals) and vals[0] is not None and vals[0] >= a["min"]
        return True

    reported = set()
    for i, cls in viol:
        fid = finding_id(prop, cls, cases[i]["fn"])
        hit = [k for k in known if matches(k, cases[i], cls)]
        if hit:
            run.known(hit[0]["id"], hit[0]["what"])
            continue
        if fid in reported or len(reported) >= 5:
            continue
        reported.add(fid)
        run.violation(dict(describe(cases[i], outs[i]), kind="property fails on the implementation", why=cls, finding_key=fid))
    return reported


def coverage(run, fns, cases, outs, viol, pl):
    hist = {}
    for c, o in zip(cases, outs):
        k = o.get("compile") if o.get("compile") != "ok" else o.get("result", "timeout" if "timeout_ms" in o else "?")
        hist[k] = hist.get(k, 0) + 1
    called = {c["fn"] for c, o in zip(cases, outs) if o.get("compile") == "ok"}
    return {"obligations": pl["obligations"], "discharged": pl["discharged"], "axioms": pl.get("axioms", {}),
            "evaluations": len(cases), "distinct_nontrivial": len({source_of(c) + json.dumps(c["event"]) for c, o in zip(cases, outs) if o.get("compile") == "ok"}),
            "rule": "every stdlib function (enumerated from vrl::stdlib::all()) x its documented examples + generated argument tuples (kind pools with edge values, "
                    "literal vs runtime-typed positions, optional arguments present/absent); non-trivial = compiled; seed %d" % run.seed,
            "functions_total": len(fns), "functions_with_compiled_calls": len(called),
            "functions_never_compiled": sorted({f["name"] for f in fns} - called)[:60],
            "outcome_histogram": hist, "violation_instances": len(viol),
            "samples": [{"source": source_of(c), "impl": {k: v for k, v in o.items() if k in ("compile", "result", "fallible", "member", "kind")}} for c, o in list(zip(cases, outs))[:3]]}
