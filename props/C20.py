"""C20 — Paths round-trip through text and all path parsers agree."""
import itertools
import re

import vlib

ID = "C20"
THEOREMS = ["C20_roundtrip", "C20_target_roundtrip", "C20_root_refuted", "C20_root_only_exception",
            "C20_parse_never_unreachable", "C20_overflow_invalid", "C20_never_panics",
            "C20_render_agree", "C20_agree", "C20_agree_short", "C20_template_refuted", "C20_roundtrip_nonvacuous"]
IMPORTS = ("From Coq Require Import List NArith ZArith String.\n"
           "From VRL Require Import Base.Bytes Base.Value Base.Lit Model.PathText Model.VrlPathLex Corr.C20.\n"
           "Local Open Scope string_scope.")
MANIFEST = {
    "level": "proof",
    "technique": "Coq proof (induction over path segments / field text) on a hand model of owned.rs rendering and the "
                 "jit.rs state machine + differential correspondence vs String::from(&path), parse_value_path, "
                 "parse_target_path and the VRL parser/compiler (all short texts over the path alphabet, random paths)",
    "text": "Closed Coq theorems: for every non-empty value path with isize indices parse(render p) = Ok p; the same for "
            "event paths (root included) and non-root metadata paths; the value root and the metadata root are exactly "
            "the paths that do not round-trip (refuted with witnesses = known finding); the parsers never panic and an "
            "index outside isize is invalid syntax. The VRL-source half is a hand model of the lexer/grammar path fragment (vrl_path): proved, for every "
            "text free of template syntax, that when both readers accept they return the same target path (C20_agree), "
            "that both read every rendered spellable path as that path, and re-checked by kernel evaluation on all 5.2M texts "
            "of <= 6 symbols over the path alphabet; inside the template-syntax class the agreement is refuted (recorded "
            "finding). The VRL model is tied to the real lexer/LALRPOP parser only by the correspondence run (partial).",
    "note": "Trusted: Coq kernel + vm_compute, the hand models Model/PathText.v and Model/VrlPathLex.v (tied by the "
            "correspondence run only), harness JSON codec, Python generator. Text = list of units, valid for UTF-8 bytes "
            "and for code points (all distinguished characters are ASCII). VRL side partial: scope predicate vrl_modelled "
            "(no line feed, comments, `;`, \\u escapes, non-ASCII whitespace). No axioms (Print Assumptions: closed).",
    "design_ref": "DESIGN.md section 5 C20; notes/C20.md",
}

ALPHA = [".", "%", "a", "0", "-", "@", "_", "\"", "\\", "[", "]", " ", "é"]
ALPHA7 = [".", "a", "0", "\"", "\\", "[", "]"]
ALPHA5 = [".", "a", "0", "[", "]"]
EXTRA = ["{", "}", "b", "1", "9", "(", ")", "'", "n", "s", "r", "t", "\t", "!", "E", "x", "+", ",", "u", "日", "\U0001f916", "$"]
FIELD_POOL = ["", "a", "b", "foo", "a b", "a.b", "a\"b", "a\\b", "\\", "\"", "\\\"", "\"\"", "0", "007", "0a", "_", "_a", "a_", "@timestamp",
              "a@b", "a-b", "-", "-a", "[0]", "[", "]", "a[1]", " ", "  x ", ".", "..", "%", "%a", "é", "naïve", "日本",
              "\U0001f916", "aé\"\\", "{{x}}", "{{ x }}", "{", "}}", "\\{{", "if", "null", "true", "else", "array", "A", "Zz9",
              "x" * 300, "\"" * 40, "\\" * 41, "a\nb", "\t", "\x00", "a'b", "s'x'", "#c", "a;b", "\\n", "\\u{41}", "(a)", "a!"]
INDEX_POOL = [0, 1, -1, 2, 7, 9, 10, 11, 42, -42, 99, 100, 101, 12345, -12345, 2**31 - 1, 2**31, -2**31, 2**32, 10**18, -10**18,
              2**63 - 1, -2**63, 2**63 - 2, -2**63 + 1, 922337203685477580, 922337203685477581, -922337203685477580,
              -922337203685477581, 9223372036854775800, 999999999999999999, 1000000000000000000]


def hx(s):
    return s.encode("utf-8").hex()


def rand_field(rng):
    r = rng.random()
    if r < 0.6:
        return rng.choice(FIELD_POOL)
    if r < 0.8:
        return "".join(rng.choice(ALPHA + EXTRA) for _ in range(rng.randint(0, 6)))
    if r < 0.9:
        return "".join(rng.choice("abcXYZ019_@") for _ in range(rng.randint(1, 8)))
    return "".join(chr(rng.choice([rng.randint(32, 126), rng.randint(0xa1, 0x2ff), rng.randint(0x4e00, 0x4eff), rng.randint(0x1f600, 0x1f64f)]))
                   for _ in range(rng.randint(1, 5)))


def rand_index(rng):
    r = rng.random()
    if r < 0.6:
        return rng.choice(INDEX_POOL)
    if r < 0.8:
        return rng.randint(-20, 20)
    return rng.randint(-2**63, 2**63 - 1)


def rand_owned_path(rng):
    n = rng.choice([0, 1, 1, 1, 2, 2, 2, 3, 3, 4, 5, 8])
    p = []
    for _ in range(n):
        if rng.random() < 0.65:
            p.append({"f": hx(rand_field(rng))})
        else:
            p.append({"i": str(rand_index(rng))})
    return p


# ---- structured texts: a path spelled in the various ways the two grammars allow (and nearly allow)
def spell_field(rng, f):
    plain = re.fullmatch(r"[A-Za-z0-9_@-]+", f) is not None
    r = rng.random()
    if plain and r < 0.6:
        return f
    out = "\""
    for ch in f:
        if ch in "\"\\":
            out += "\\" + ch
        elif ch == "\n" and rng.random() < 0.7:
            out += "\\n"
        elif ch == "\t" and rng.random() < 0.7:
            out += "\\t"
        elif ch == "\x00":
            out += "\\0"
        elif ch in "{}" and rng.random() < 0.3:
            out += "\\" + ch
        else:
            out += ch
    return out + "\""


def spell_index(rng, i):
    s = str(i)
    r = rng.random()
    if r < 0.6:
        return "[" + s + "]"
    if r < 0.7:
        return "[ " + s + " ]"
    if r < 0.8 and i >= 0:
        return "[" + "0" * rng.randint(1, 3) + s + "]"
    if r < 0.87 and len(s) > 2:
        return "[" + s[:-2] + "_" + s[-2:] + "]"
    if r < 0.92:
        return "[" + s + rng.choice(["", "]", " ", "a", ".", "_", "-"])
    if r < 0.96:
        return "[" + rng.choice(["-", "", "+", "--", "- "]) + (s.lstrip("-")) + "]"
    return "[" + s + "0" * rng.randint(1, 3) + "]"


def rand_text(rng):
    r = rng.random()
    if r < 0.25:
        return "".join(rng.choice(ALPHA) for _ in range(rng.randint(5, 9)))
    if r < 0.4:
        return "".join(rng.choice(ALPHA + EXTRA) for _ in range(rng.randint(1, 8)))
    pre = rng.choice([".", ".", ".", "%", "%", "", "", " .", "..", "%."])
    n = rng.choice([0, 1, 1, 2, 2, 3, 4])
    t = pre
    for k in range(n):
        if rng.random() < 0.7:
            f = rand_field(rng) if rng.random() < 0.5 else rng.choice(["a", "b", "foo", "x1", "_x", "@t", "if"])
            sep = "" if (k == 0 and pre and pre[-1] in ".%") else rng.choice([".", ".", ".", ".", "", ".."])
            t += sep + spell_field(rng, f)
        else:
            t += rng.choice(["", "", "", "", "", "", ".", ".", " "]) + spell_index(rng, rand_index(rng) if rng.random() < 0.7 else rng.choice([10**19, -10**19, 2**63, -2**63 - 1, 2**64, 10**30]))
    if rng.random() < 0.1:
        t += rng.choice([" ", ".", "[", "\"", "\\", "  ", "]", "-"])
    if rng.random() < 0.15 and t:
        # one random mutation
        k = rng.randrange(len(t))
        t = t[:k] + rng.choice(ALPHA + EXTRA + [""]) + t[k + (rng.random() < 0.5):]
    return t


def all_texts(alpha, maxlen, minlen=0):
    for L in range(minlen, maxlen + 1):
        for tup in itertools.product(alpha, repeat=L):
            yield "".join(tup)


def blocks(tier):
    """The exhaustive blocks: (kind, alphabet, n, prefix).  A block stands for every text prefix ++ w with w a word of
    exactly n alphabet symbols.  Large blocks are split by their first symbol so that they run in parallel."""
    thorough = tier != "quick"
    out = []

    def add(kind, alpha, n, prefix="", split=0):
        if split and n > split:
            for a in alpha:
                add(kind, alpha, n - 1, prefix + a, split)
        else:
            out.append((kind, alpha, n, prefix))

    # all texts over the full path alphabet through both path-string parsers
    for L in range(0, (6 if thorough else 4) + 1):
        add("parse", ALPHA, L, split=4)
    if not thorough:
        # length 5 over the full alphabet: the texts that begin a target path (the rest is covered in the thorough tier)
        add("parse", ALPHA, 4, prefix=".")
        add("parse", ALPHA, 4, prefix="%")
    # longer texts over the sub-alphabets that matter for the state machine (segment boundaries, quotes, indices)
    add("parse", ALPHA7, 6, split=5)
    add("parse", ALPHA5, 7, split=6)
    if thorough:
        add("parse", ALPHA7, 7, split=5)
        add("parse", ALPHA7, 8, split=5)
        add("parse", ALPHA5, 8, split=6)
        add("parse", ALPHA5, 9, split=6)
    # texts as VRL programs
    for L in range(0, (5 if thorough else 4) + 1):
        add("vrl", ALPHA, L, split=3)
    for h in [".", "%"] + ([" ."] if thorough else []):
        add("vrl", ALPHA, 5 if thorough else 4, prefix=h, split=3)
    add("vrl", ALPHA7, 5, prefix=".", split=4)
    add("vrl", ALPHA5, 6, prefix=".", split=5)
    if thorough:
        add("vrl", ALPHA7, 6, prefix=".", split=4)
        add("vrl", ALPHA7, 6, prefix="%", split=4)
        add("vrl", ALPHA5, 8, prefix=".", split=5)
    return out


def block_case(b):
    kind, alpha, n, prefix = b
    return {"op": "exhaust", "kind": kind, "alpha": [hx(a) for a in alpha], "n": n, "prefix": hx(prefix)}


def run_blocks(bs):
    """Runs the blocks through the harness (one process per block, in parallel) and returns, per block, the texts on
    which the implementation did anything but fail."""
    import concurrent.futures as cf
    cases = [block_case(b) for b in bs]
    with cf.ThreadPoolExecutor(max_workers=vlib.NPROC) as ex:
        outs = list(ex.map(lambda c: vlib.run_harness("pathtext", [c], procs=1)[0], cases))
    return cases, outs


def gen_cases(run, n):
    """n = number of random cases of each stream; the exhaustive blocks are fixed per tier.
    Every text of a block on which the implementation does not simply fail becomes an individual parse / vrl case
    (so that it has its own replay); the block case itself carries the claim that all the other texts fail."""
    rng = run.rng
    thorough = run.tier != "quick"
    cases = []
    # (a) random owned paths -> render -> parse
    for _ in range(n):
        cases.append({"op": "render", "prefix": rng.choice(["value", "value", "event", "metadata"]), "p": rand_owned_path(rng)})
    # (b), (c) exhaustive blocks
    bcases, bouts = run_blocks(blocks(run.tier))
    seen = set()
    for bc, bo in zip(bcases, bouts):
        if not isinstance(bo, dict) or "oks" not in bo:
            continue            # the block case itself will show the harness failure
        op = "parse" if bc["kind"] == "parse" else "vrl"
        for t in bo["oks"]:
            if (op, t) not in seen:
                seen.add((op, t))
                cases.append({"op": op, "t": t})
    # random / structured texts
    for _ in range(n):
        t = rand_text(rng)
        cases.append({"op": "parse", "t": hx(t)})
        cases.append({"op": "vrl", "t": hx(t)})
    if thorough:
        for _ in range(10 * n):
            cases.append({"op": "parse", "t": hx("".join(rng.choice(ALPHA) for _ in range(rng.randint(7, 9))))})
    # spread the (heavy) block cases evenly so that the harness processes share them
    step = max(1, len(cases) // (len(bcases) + 1))
    outl = []
    k = 0
    for i, c in enumerate(cases):
        if i % step == 0 and k < len(bcases):
            outl.append(bcases[k])
            k += 1
        outl.append(c)
    outl += bcases[k:]
    return outl


# ---- rendering of cases as Gallina terms
def coq_text(h):
    return "(nb %d 0x%s)" % (len(h) // 2, h or "0")


def coq_path(p):
    segs = []
    for s in p:
        if "f" in s:
            segs.append("SField %s" % coq_text(s["f"]))
        else:
            segs.append("SIndex %s" % vlib.coq_z(s["i"]))
    return "[%s]" % "; ".join(segs)


def coq_prefix(p):
    return "Event" if p == "event" else "Metadata"


def coq_tpath(tp):
    return "(%s, %s)" % (coq_prefix(tp["prefix"]), coq_path(tp["p"]))


def coq_pres(r, inner):
    if r == "err":
        return "PErr"
    if r == "panic":
        return "PPanic"
    return "(POk %s)" % inner(r["ok"])


def coq_rerender(part, inner):
    if "rendered" in part:
        return "(Some (%s, %s))" % (coq_text(part["rendered"]), coq_pres(part["reparse"], inner))
    return "None"


def to_coq(c, o):
    if c["op"] == "render":
        if c["prefix"] == "value":
            return "CRenderV %s %s %s" % (coq_path(c["p"]), coq_text(o["text"]), coq_pres(o["reparse"], coq_path))
        return "CRenderT (%s, %s) %s %s" % (coq_prefix(c["prefix"]), coq_path(c["p"]), coq_text(o["text"]),
                                            coq_pres(o["reparse"], coq_tpath))
    if c["op"] == "parse":
        v, tg = o["value"], o["target"]
        return "CParse %s %s %s %s %s" % (coq_text(c["t"]), coq_pres(v["res"], coq_path), coq_rerender(v, coq_path),
                                          coq_pres(tg["res"], coq_tpath), coq_rerender(tg, coq_tpath))
    if c["op"] == "exhaust":
        return "CExhaust %s %s [%s] %d [%s]" % ("true" if c["kind"] == "vrl" else "false", coq_text(c["prefix"]),
                                                 "; ".join(coq_text(a) for a in c["alpha"]), c["n"],
                                                 "; ".join(coq_text(t) for t in o["oks"]))
    if c["op"] == "vrl":
        if o["ast"] == "panic":
            raise ValueError("the VRL parser panicked")
        ast = "None" if o["ast"] == "none" else "(Some %s)" % coq_tpath(o["ast"]["some"])
        comp = o["compiled"]
        comp = "CErr" if comp == "err" else "CPanic" if comp == "panic" else "(COk [%s])" % "; ".join(coq_tpath(x) for x in comp["ok"])
        return "CVrl %s %s %s %s" % (coq_text(c["t"]), ast, comp, coq_pres(o["target"], coq_tpath))
    raise ValueError("bad op")


# ---- known findings: classify *why* the oracle fails on a case (python mirror of Corr/C20.v oracle, for the matcher only)


def failure_tags(c, o):
    tags = set()

    def text():
        return bytes.fromhex(c["t"]).decode("utf-8")

    def nf(part, is_root):
        r = part["res"]
        if r == "panic":
            tags.add("other")
        elif r != "err":
            if part.get("reparse") != r:
                tags.add("root" if is_root(r["ok"]) and part.get("reparse") == "err" else "other")

    if c["op"] == "exhaust":
        return tags
    if c["op"] == "render":
        want = {"ok": c["p"]} if c["prefix"] == "value" else {"ok": {"prefix": c["prefix"], "p": c["p"]}}
        if o["reparse"] != want:
            tags.add("root" if c["p"] == [] and c["prefix"] in ("value", "metadata") and o["reparse"] == "err" else "other")
    elif c["op"] == "parse":
        nf(o["value"], lambda p: p == [])
        nf(o["target"], lambda tp: tp["p"] == [] and tp["prefix"] == "metadata")
    elif c["op"] == "vrl":
        if o["target"] == "panic":
            tags.add("other")
        ast = None if o["ast"] in ("none", "panic") else o["ast"]["some"]
        if ast is not None and isinstance(o["target"], dict) and o["target"]["ok"] != ast:
            tags.add("template" if ("{{" in text() or "\\}}" in text()) else "other")
        if ast is not None and o["compiled"] != {"ok": [ast]}:
            tags.add("other")
        if o["ast"] == "panic":
            tags.add("other")
        elif ast is None and o["compiled"] == "panic":
            tags.add("other")
    return tags


def known_matcher(entry, c, o):
    if any(k in o for k in ("panic", "crash", "timeout", "harness_error")):
        return False
    tags = failure_tags(c, o)
    return "other" not in tags and entry["match"]["tag"] in tags


def nontrivial(c):
    if c["op"] == "render":
        return len(c["p"]) >= 1
    if c["op"] == "exhaust":
        return c["n"] >= 3
    return len(c["t"]) >= 6


def fast_evaluate(prop, imports, fam, to_coq, cases, what=("check", "oracle"), tag="cases", shard=None):
    """Same contract as checklib.evaluate, but check and oracle are evaluated in one coqc run per shard and the
    shards are larger: for this property the cost is coqc start-up and reading the case terms, not vm_compute
    (31 000 exhaustive texts per run)."""
    import concurrent.futures as cf
    import os
    outs = vlib.run_harness(fam, cases)
    import checklib
    failed = [i for i, o in enumerate(outs) if checklib.impl_failed(o)]
    fs = set(failed)
    terms, keep = [], []
    for i in range(len(cases)):
        if i in fs:
            continue
        try:
            terms.append(to_coq(cases[i], outs[i]))
            keep.append(i)
        except Exception as e:
            outs[i] = {"harness_error": "cannot render case: %r" % (e,)}
            failed.append(i)
    d = os.path.join(vlib.CACHE, "cases", prop)
    os.makedirs(d, exist_ok=True)
    for f in os.listdir(d):
        if f.startswith(tag + "_both"):
            os.unlink(os.path.join(d, f))
    files = []
    if shard is None:       # two waves of coqc processes, but no shard so large that a loaded machine times it out
        shard = min(3000, max(200, -(-len(terms) // (2 * vlib.NPROC))))
    for si, start in enumerate(range(0, len(terms), shard)):
        path = os.path.join(d, "%s_both_%04d.v" % (tag, si))
        with open(path, "w") as f:
            f.write(imports + "\nImport ListNotations.\nLocal Open Scope Z_scope.\n")
            f.write("Definition the_cases := [\n  %s\n].\n" % ";\n  ".join(terms[start:start + shard]))
            for w in what:
                f.write("Eval vm_compute in (mismatches %s the_cases).\n" % w)
            # deliberately ill-typed last line: coqc stops here and does not spend seconds writing a .vo
            f.write("Check (done_marker_C20 : nat).\n")
        files.append((start, path))
    res = {w: [] for w in what}
    err = None
    with cf.ThreadPoolExecutor(max_workers=vlib.NPROC) as ex:
        for (start, path), (rc, out) in zip(files, ex.map(lambda sp: vlib._coqc(sp[1], 3000), files)):
            if "done_marker_C20" not in out:
                err = "coqc failed on %s (rc=%s): %s" % (path, rc, out[-1500:])
                continue
            ms = re.findall(r"=\s*(.*?)\s*:\s*list N", out, re.S)
            if len(ms) != len(what):
                err = "unparsable coqc output for %s: %s" % (path, out[-500:])
                continue
            for w, m in zip(what, ms):
                res[w] += [keep[start + int(x)] for x in re.findall(r"\d+", m)]
    bad_oracle = sorted(res.get("oracle", []))
    if tag == "shrink":
        # a shrinking step must not slide from the failure being minimised into a recorded known-finding class
        # (e.g. dropping every segment of a path lands on the root, which is known not to re-parse)
        known = {e["match"]["tag"] for e in vlib.known_findings(prop)}
        bad_oracle = [i for i in bad_oracle if not (failure_tags(cases[i], outs[i]) <= known)]
    return outs, sorted(res.get("check", [])), bad_oracle, sorted(failed), err


def main(run, args):
    import checklib
    checklib.evaluate = fast_evaluate       # same contract, one coqc pass per shard (see fast_evaluate)
    n = 1500 if run.tier == "quick" else 20000
    if args.cases:
        n = args.cases
    return checklib.standard(run, ID, THEOREMS, IMPORTS, "pathtext", gen_cases, to_coq, n, nontrivial=nontrivial,
                             replay=args.replay, known_matcher=known_matcher)
