"""C09 — short-circuit and conditional evaluation are exact."""
import corevrl as cv
from corevrl import lit, ev_field, set_field, mark
from vlib import ji, js, jo, ja

ID = "C09"
THEOREMS = ["C09_or", "C09_or_skips_rhs", "C09_or_yields_rhs", "C09_and", "C09_and_skips_rhs", "C09_and_conjunction",
            "C09_if", "C09_if_missing_else_is_null", "C09_example"]
MANIFEST = {
    "level": "proof",
    "technique": "Coq equations on a hand model of Op::resolve (Or/And), try_and and IfStatement::resolve + differential correspondence on compiled VRL programs",
    "text": "Closed Coq theorems (all function/operator semantics): a || b yields a without evaluating b unless a is null/false, "
            "else b; a && b yields false without evaluating b when a is null/false, else the conjunction per try_and; if runs "
            "exactly the branch its boolean predicate selects and yields null for a missing else; unevaluated operands leave "
            "the state untouched. Correspondence on compiled programs; the oracle checks markers planted in every operand/branch.",
    "note": "Trusted: Coq kernel + vm_compute; hand model Model/Eval.v (tie = correspondence). No axioms.",
    "design_ref": "DESIGN.md section 5 C09",
}
POOL = [None, False, True, ji(0), ji(7), js(""), js("s"), ja([]), jo([])]


def falsy(v):
    return v is None or v is False


def gen_targeted(run, n):
    rng = run.rng
    cases = []
    for _ in range(n):
        a = rng.choice(POOL)
        k = rng.choice(["or", "and", "if", "ifnoelse"])
        A = ("block", [mark("a_ran"), ev_field("a")])
        if k == "or":
            bv = rng.choice(POOL)
            e = ("op", "or", A, ("block", [mark("b_ran"), lit(bv)]))
            exp = {"b": bv}
        elif k == "and":
            bv = rng.choice([True, False, None])       # `true && null` is false (try_and), not an error
            e = ("op", "err", ("op", "and", A, ("block", [mark("b_ran"), lit(bv)])), lit(js("ERR")))
            exp = {"b": bv}
        else:
            c = rng.choice([True, False])
            pred = ("block", [mark("a_ran"), ("op", "eq", ev_field("a"), lit(a if rng.random() < 0.5 else rng.choice(POOL)))])
            t = [mark("t_ran"), lit(ji(11))]
            fb = [mark("f_ran"), lit(ji(22))] if k == "if" else None
            e = ("if", [pred], t, fb)
            exp = {"pred_rhs": pred[1][1][3][1]}
        prog = [("assign", ("tvar", "r", []), e), mark("after"), ("var", "r")]
        cases.append({"kind": "targeted", "ast": prog, "event": jo([("a", a)]), "meta": jo([]), "vars": ["r"],
                      "expect": dict(exp, what=k, a=a), "meta_info": {"ctx": [k]}})
    return cases


def oracle(case, out):
    exp = case["expect"]
    res = out["result"]
    if "ok" not in res:
        return "program failed: %r" % (res,)
    r = res["ok"]
    a = exp["a"]
    has = lambda m: cv.event_has(out, m)
    if not has("a_ran") or not has("after"):
        return "left operand / rest of program not evaluated"
    if exp["what"] == "or":
        if falsy(a):
            return None if (r == exp["b"] and has("b_ran")) else "a || b with a null/false must evaluate and yield b"
        return None if (r == a and not has("b_ran")) else "a || b with a truthy must yield a and not evaluate b (r=%r, b_ran=%r)" % (r, has("b_ran"))
    if exp["what"] == "and":
        if falsy(a):
            return None if (r is False and not has("b_ran")) else "a && b with a null/false must yield false without evaluating b"
        if a is True:
            want = False if exp["b"] is None else exp["b"]
            return None if (r == want and has("b_ran")) else "true && b must evaluate b and yield it (null counts as false); got %r" % (r,)
        return None if (r == {"b": "ERR".encode().hex()} and has("b_ran")) else "non-boolean && b must evaluate b then fail"
    # structural equality oracle for the predicate: VRL == on these pool values is plain equality,
    # except that integer 0 / float are not mixed here
    cond = (a == exp["pred_rhs"]) and (type(a) == type(exp["pred_rhs"]))
    if cond:
        return None if (r == ji(11) and has("t_ran") and not has("f_ran")) else "if: true predicate must run exactly the consequent"
    if exp["what"] == "if":
        return None if (r == ji(22) and has("f_ran") and not has("t_ran")) else "if: false predicate must run exactly the else branch"
    return None if (r is None and not has("t_ran")) else "if without else must yield null when the predicate is false"


def main(run, args):
    return cv.standard_main(run, ID, THEOREMS, MANIFEST, gen_targeted, oracle, args)
