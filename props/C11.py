"""C11 — Arithmetic follows the documented numeric semantics."""
import arith_common as ac

ID = "C11"
THEOREMS = ["C11_wrap64_char", "C11_int_wrap", "C11_div", "C11_div_zero_iff", "C11_rem", "C11_int_rem",
            "C11_mixed_left", "C11_mixed_right", "C11_mixed_right_div", "C11_float_ops", "C11_concat", "C11_repeat", "C11_never_nan",
            "C11_nan_cases", "C11_examples"]
IMPORTS = ("From Coq Require Import List ZArith String Floats.SpecFloat.\n"
           "From VRL Require Import Base.Bytes Base.Value Base.Lit Model.Arith Corr.C11.\nLocal Open Scope string_scope.")
REALS_AXIOMS = ("ClassicalDedekindReals.sig_not_dec", "ClassicalDedekindReals.sig_forall_dec",
                "FunctionalExtensionality.functional_extensionality_dep", "Classical_Prop.classic")
MANIFEST = {
    "level": "proof",
    "technique": "Coq proofs (modular arithmetic on Z, case analysis over operand kinds) on a hand model of "
                 "arithmetic.rs try_add/sub/mul/div/rem + differential correspondence vs the trait methods, vs compiled "
                 "`.a <op> .b` / `mod(.a, .b)` programs, and vs an independent Python big-int/IEEE reference",
    "text": "Closed Coq theorems over ALL operand pairs: integer + - * equal wrap64 of the exact result, wrap64 being "
            "characterised as the unique representative in [-2^63, 2^63) modulo 2^64; `/` on numbers is Err(divide by "
            "zero) iff the divisor is 0 / +-0.0 and otherwise the binary64 quotient of the converted operands, always "
            "a float; mod likewise with the truncating integer remainder (MIN mod -1 = 0); mixed integer/float "
            "operations equal the float operation on the converted integer (both orders); string + string/null and "
            "string * n = repeat max(n, 0); no operator ever returns a NaN float. The model is tied to the code by "
            "running the five operations on generated pairs through the trait methods, through compiled programs on "
            "events, through literal operands folded by the compile-time constant evaluator (Op::resolve_constant, consumed "
            "by zip/object_from_array, directly and through variables, nested arithmetic included), and through the "
            "Gallina definitions (vm_compute), with Python's unbounded integers and hardware "
            "doubles (math.fmod) as a third opinion compared bit for bit.",
    "note": "Trusted: Coq kernel + vm_compute, the hand-written model Model/Arith.v (tied by correspondence only), "
            "Coq's SpecFloat (SFadd/SFsub/SFmul/SFdiv, binary_normalize, precision 53, emax 1024) as the definition of "
            "binary64 arithmetic, the model's exact fmod sf_rem (validated against the implementation and math.fmod, "
            "no theorem relates it to the reals), harness JSON codec, Python generator. Error variants are abstracted "
            "to a class (divide by zero / NaN / type). Print Assumptions: every theorem is closed under the global context except C11_mixed_right_div, which uses Flocq's real-number semantics of binary64 and depends on the four standard axioms of Coq's classical reals (sig_not_dec, sig_forall_dec, functional_extensionality_dep, classic). Not exercised: "
            "`string * n` with a non-empty string and n > 64 (allocates len*n bytes; huge n panics with capacity "
            "overflow - a C04 matter).",
    "design_ref": "DESIGN.md section 5 C11",
}


def gen_cases(run, n):
    return ac.gen_cases(run, n, "arith", lit_share=0.2)


def nontrivial(c):
    return c["op"] != "any/any"


def main(run, args):
    import checklib
    n = 3000 if run.tier == "quick" else 60000
    if args.cases:
        n = args.cases
    rc = checklib.standard(run, ID, THEOREMS, IMPORTS, "arith", gen_cases, ac.arith_to_coq, n, nontrivial=nontrivial,
                             replay=args.replay, allowed_axioms=REALS_AXIOMS)
    if args.replay:
        return rc
    return ac.axiom_guard(ID, ("C11_mixed_right_div",), rc)
