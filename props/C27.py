"""C27 — Digest and checksum functions match reference algorithms."""
import base64
import binascii
import glob
import os
import re

import vlib
from vlib import coq_hex, coq_value

import C27_ref as R

ID = "C27"
THEOREMS = [
    "C27_glue_md5", "C27_glue_sha1", "C27_glue_seahash",
    "C27_glue_sha2", "C27_glue_sha2_default", "C27_sha2_accepted",
    "C27_glue_sha3", "C27_glue_sha3_default", "C27_sha3_accepted",
    "C27_glue_hmac", "C27_glue_hmac_default", "C27_hmac_accepted", "C27_glue_hmac_encoded",
    "C27_glue_crc", "C27_glue_crc_default", "C27_crc_accepted", "C27_crc_catalogue_check",
    "C27_glue_xxhash", "C27_glue_xxhash_default", "C27_xxhash_accepted",
    "C27_lowercase_names", "C27_type_errors",
    "C27_hmac_def", "C27_hmac_key_short", "C27_hmac_key_long", "C27_hmac_key_length",
    "C27_hex_inj", "C27_hex_length", "C27_dec_inj", "C27_i64_inj", "C27_digest_lengths", "C27_word_ranges",
    "C27_sha512t_iv",
    "C27_vectors_md5", "C27_vectors_sha1", "C27_vectors_sha2", "C27_vectors_sha3", "C27_vectors_hmac",
    "C27_vectors_xxhash", "C27_vectors_seahash",
]
IMPORTS = ("From Coq Require Import List NArith ZArith String.\n"
           "From VRL Require Import Base.Bytes Base.Value Base.Lit Model.DigestGlue Corr.C27.\n"
           "Local Open Scope string_scope.")
MANIFEST = {
    "level": "proof",
    "technique": "executable Gallina specifications of the published algorithms (RFC 1321, FIPS 180-4, FIPS 202, RFC 2104, "
                 "Rocksoft CRC model + the 112 catalogue parameter sets, xxHash spec incl. XXH3, SeaHash reference) pinned to "
                 "the standards by their official test vectors proved by kernel evaluation; Coq proofs of the VRL glue "
                 "(name dispatch, defaults, encodings); three-way differential correspondence: implementation run through "
                 "compiled VRL programs vs the Gallina specifications vs Python hashlib/hmac/zlib and hand-written CRC/xxHash/SeaHash",
    "text": "Closed Coq theorems: for every accepted (function, variant) and every input (and key) the VRL-level model returns "
            "encode(spec variant input) — hex text for md5/sha1/sha2/sha3, raw bytes for hmac (and hex/base64 text when wrapped "
            "in encode_base16/encode_base64), decimal text for crc and XXH3-128, i64 reinterpretation for XXH64/XXH3-64/seahash; "
            "the accepted names are exactly the documented ones (sha2/sha3: byte-exact literals; hmac/crc/xxhash: after "
            "str::to_uppercase); the defaults are the documented ones; HMAC is H((K' xor opad) || H((K' xor ipad) || m)) with "
            "K' = K or H(K) zero-padded to the block size; hex, decimal and i64 encodings are injective; the CRC model "
            "reproduces the check value of all 112 catalogue entries; every specification reproduces its standard's test "
            "vectors; the SHA-512/t initial values equal the FIPS 180-4 5.3.6 generation function. The specifications are tied "
            "to the Rust crates only by the correspondence run (all variants x boundary lengths x keys).",
    "note": "The property is agreement with external definitions, so there is no deeper theorem: the Gallina specifications "
            "are the trusted transcription of the standards (pinned by test vectors), the glue theorems are about the hand "
            "model Model/DigestGlue.v, and the tie to md-5/sha1/sha2/sha3/hmac/crc/xxhash-rust/seahash is the correspondence "
            "run. Every variant has a Gallina specification (none is Python-only). Inputs longer than 300 bytes are compared "
            "with the Python reference only (CDirect). Trusted: Coq kernel + vm_compute, harness JSON codec, Python "
            "generator, CPython hashlib. str::to_uppercase is modelled exactly as far as acceptance is concerned (ASCII + the "
            "ten non-ASCII characters whose upper-case expansion is ASCII). No axioms (Print Assumptions: closed).",
    "design_ref": "DESIGN.md section 5 C27; notes/C27.md",
}

OPS_WITH_NAME = ["sha2", "sha3", "hmac", "crc", "xxhash"]
FN = {"md5": "FMd5", "sha1": "FSha1", "sha2": "FSha2", "sha3": "FSha3", "hmac": "FHmac", "crc": "FCrc",
      "xxhash": "FXxhash", "seahash": "FSeahash"}
WRAP = {"raw": "WRaw", "hex": "WHex", "b64": "WB64"}
HMAC_BLOCK = {"SHA1": 64, "SHA-224": 64, "SHA-256": 64, "SHA-384": 128, "SHA-512": 128}
MAX_COQ_LEN = 300

BOUNDARY = [0, 1, 2, 3, 4, 5, 7, 8, 9, 15, 16, 17, 31, 32, 33, 47, 48, 55, 56, 57, 63, 64, 65, 71, 72, 73, 96, 97, 103, 104,
            105, 111, 112, 113, 119, 120, 121, 127, 128, 129, 130, 135, 136, 137, 143, 144, 145, 160, 161, 191, 192, 239,
            240, 241, 255, 256, 257, 300]


def canonical(op):
    if op == "sha2":
        return list(R.SHA2)
    if op == "sha3":
        return list(R.SHA3)
    if op == "hmac":
        return list(R.HMAC)
    if op == "crc":
        return sorted(R.catalog())
    if op == "xxhash":
        return list(R.XXH)
    return []


def crc_names_in_sources():
    """every CRC_* identifier that appears in the crc-catalog crate or in crc.rs — names the implementation could accept"""
    names = set()
    for f in glob.glob(os.path.expanduser("~/.cargo/registry/src/*/crc-catalog-*/src/*.rs")) + \
            [os.path.join(vlib.REPO, "src/stdlib/crc.rs")]:
        try:
            names |= set(re.findall(r"\bCRC_[A-Z0-9_]+\b", open(f).read()))
        except OSError:
            pass
    return sorted(names)


# non-ASCII characters whose upper-case expansion is ASCII
SPECIAL_UP = {"S": "ſ", "I": "ı", "SS": "ß", "FF": "ﬀ", "FI": "ﬁ", "FL": "ﬂ", "FFI": "ﬃ",
              "FFL": "ﬄ", "ST": "ﬅ"}
JUNK = ["", " ", "SHA", "SHA256", "SHA-1", "SHA1", "sha1", "SHA_256", "SHA-256 ", " SHA-256", "SHA-256\x00", "SHA-512/128",
        "SHA-512-256", "SHA512/256", "SHA2-256", "SHA3", "SHA3-128", "SHA3_256", "SHAKE128", "KECCAK-256", "MD5", "md5",
        "CRC", "CRC32", "CRC_32", "CRC-32", "CRC_32_ISO-HDLC", "CRC_UNKNOWN", "CRC_8", "CRC_16", "CRC_64", "CRC_32_ISO_HDLC ",
        "XXH", "XXH3", "XXH128", "XXH3_64", "XXH3-32", "XXH-32", "XXH32 ", "xxh", "SEAHASH", "K", "K", "İ",
        "SHA‐256", "SHA-２５６", "σha-256", "null", "true", "0"]


def name_candidates(rng):
    """(text or bytes) names to offer to every function that takes one"""
    out = []
    allc = []
    for op in OPS_WITH_NAME:
        allc += canonical(op)
    allc += crc_names_in_sources()
    seen = set()
    for n in allc:
        for v in (n, n.lower(), n.capitalize(), n.swapcase() if n != n.swapcase() else n.title()):
            if v not in seen:
                seen.add(v)
                out.append(v)
    # every special character substituted in every name that contains its expansion (each spot once)
    for n in sorted(set(allc)):
        for exp, ch in SPECIAL_UP.items():
            for m in re.finditer(exp, n):
                v = n[:m.start()] + ch + n[m.end():]
                if v not in seen:
                    seen.add(v)
                    out.append(v)
                v2 = v.lower()
                if v2 not in seen:
                    seen.add(v2)
                    out.append(v2)
    out += [j for j in JUNK if j not in seen]
    # invalid UTF-8 and stray bytes (dyn mode only)
    out += [b"SHA-256\xff", b"\xc5SHA-256", b"\xc5\xbfHA-256\x80", b"\xef\xacHA", b"SHA\xc0\xad256", b"XXH3\xe2\x80\x9064",
            b"CRC_32_I\xc5\xbfO_HDLC", b"\xe0\xc5\xbfHA1", b"crc_11_\xef\xac\x82exray", b"CRC_11_\xef\xac\x82EXRAY\xef"]
    return out


def rand_bytes(rng, n):
    r = rng.random()
    if r < 0.08:
        return bytes(n)
    if r < 0.14:
        return b"\xff" * n
    if r < 0.22:
        return bytes(rng.choice(b"abcdefghijklmnopqrstuvwxyz0123456789 ") for _ in range(n))
    if r < 0.27:
        return bytes([0x80] * n)
    return bytes(rng.randrange(256) for _ in range(n))


def call(op, x, name=None, mode=None, key=None, enc="raw", namev=None, kind=None):
    c = {"op": op, "kind": kind or op, "x": list(x) if isinstance(x, (bytes, bytearray)) else x, "enc": enc}
    if mode is None:
        mode = "default" if name is None and namev is None else "dyn"
    c["mode"] = mode
    if name is not None:
        c["name"] = (name.encode("utf-8") if isinstance(name, str) else bytes(name)).hex()
    if namev is not None:
        c["namev"] = namev
    if op == "hmac":
        c["key"] = list(key) if isinstance(key, (bytes, bytearray)) else key
    return c


def is_utf8(b):
    try:
        b.decode("utf-8")
        return True
    except UnicodeDecodeError:
        return False


def gen_cases(run, n):
    rng = run.rng
    thorough = n > 10000
    cases = []

    # ---- A. name sweep: every candidate name to every function that takes one, literal and dynamic
    cands = name_candidates(rng)
    probe = {"sha2": b"abc", "sha3": b"abc", "hmac": b"abc", "crc": b"123456789", "xxhash": b"abc"}
    for op in OPS_WITH_NAME:
        own = set(canonical(op))
        for nm in cands:
            nb = nm.encode("utf-8") if isinstance(nm, str) else nm
            txt = nb.decode("utf-8", "replace")
            # names of another family that could not possibly be accepted are offered once (dyn) only
            related = txt.upper() in own or not txt.upper().startswith("CRC_") or op == "crc"
            if not related and rng.random() < 0.9:
                continue
            key = b"key" if op == "hmac" else None
            if op not in ("sha2", "sha3"):
                cases.append(call(op, probe[op], nb, "dyn", key=key, kind="names"))
            if is_utf8(nb) and "{{" not in txt and (op in ("sha2", "sha3") or rng.random() < 0.3):
                cases.append(call(op, probe[op], nb, "lit", key=key, kind="names"))
        cases.append(call(op, probe[op], key=b"key" if op == "hmac" else None, kind="names"))
        cases.append(call(op, probe[op], "SHA-256", "dyn", key=b"key" if op == "hmac" else None, kind="names"))
    # non-bytes arguments
    odd = [vlib.ji(3), None, True, vlib.ja([vlib.js("abc")]), vlib.jo({"a": vlib.ji(1)}), vlib.jf(1.5), vlib.jts(0)]
    for op in FN:
        for v in odd:
            cases.append(call(op, v, key=b"k" if op == "hmac" else None, kind="types"))
            if op in OPS_WITH_NAME:
                cases.append(call(op, b"abc", namev=v, mode="dyn", key=b"k" if op == "hmac" else None, kind="types"))
        if op == "hmac":
            for v in odd:
                cases.append(call(op, b"abc", key=v, kind="types"))
                cases.append(call(op, b"abc", key=v, name="SHA-1x", mode="dyn", kind="types"))

    # ---- B. every variant x lengths around the block / rate boundaries (+ random lengths)
    variants = [("md5", None), ("sha1", None), ("seahash", None)]
    variants += [(op, v) for op in ("sha2", "sha3", "xxhash") for v in canonical(op)]
    for op, v in variants:
        lens = list(range(0, 131)) + [x for x in BOUNDARY if x > 130] if thorough else \
            BOUNDARY + [rng.randint(0, 300) for _ in range(4)]
        if thorough:
            lens += [rng.randint(131, 300) for _ in range(40)]
        for L in lens:
            mode = None if v is None else ("lit" if op in ("sha2", "sha3") or rng.random() < 0.5 else "dyn")
            cases.append(call(op, rand_bytes(rng, L), v, mode, kind=op))
        if v is not None:
            cases.append(call(op, rand_bytes(rng, rng.randint(0, 80)), kind=op))     # the default variant

    # ---- C. hmac: every algorithm x key lengths around the block size x message lengths x wrappers
    encs = ["raw", "hex", "b64"]
    for alg in canonical("hmac"):
        B = HMAC_BLOCK[alg]
        klens = [0, 1, B - 1, B, B + 1, 200] + ([20, 2 * B, 2 * B + 1, 131] if thorough else [rng.randint(2, 250)])
        mlens = [0, B - 9, B - 8, B, rng.randint(0, 200)] + ([1, 8, 28, 50, B - 1, B + 1, 2 * B, 300] if thorough else [])
        i = 0
        for kl in klens:
            for ml in mlens:
                i += 1
                spelled = alg if rng.random() < 0.7 else alg.lower()
                cases.append(call("hmac", rand_bytes(rng, ml), spelled, "lit" if rng.random() < 0.3 else "dyn",
                                  key=rand_bytes(rng, kl), enc=encs[i % 3], kind="hmac"))
        cases.append(call("hmac", rand_bytes(rng, 30), key=rand_bytes(rng, 20), enc="hex", kind="hmac"))

    # ---- D. crc: every catalogue entry x a few lengths
    for nm in canonical("crc"):
        lens = [0, 1, rng.randint(2, 40), rng.randint(41, 300)] + ([2, 3, 4, 8, 9, 16, 17, 255, 256] if thorough else [])
        cases.append(call("crc", b"123456789", nm, "dyn", kind="crc"))
        for L in lens:
            spelled = nm if rng.random() < 0.8 else nm.lower()
            cases.append(call("crc", rand_bytes(rng, L), spelled, "lit" if rng.random() < 0.15 else "dyn", kind="crc"))
    cases.append(call("crc", rand_bytes(rng, 33), kind="crc"))

    # ---- E. long inputs: compared with the Python reference only
    longs = [301, 511, 512, 513, 1023, 1024, 1025, 1087, 1088, 1089, 2047, 2048, 2049, 4096, 5000]
    for op, v in variants:
        for L in (longs if thorough else rng.sample(longs, 4) + [rng.randint(301, 6000)]):
            mode = None if v is None else ("lit" if op in ("sha2", "sha3") else "dyn")
            cases.append(call(op, rand_bytes(rng, L), v, mode, kind="long"))
    for alg in canonical("hmac"):
        for L in (longs[:8] if thorough else [rng.randint(301, 3000)]):
            cases.append(call("hmac", rand_bytes(rng, L), alg, "dyn", key=rand_bytes(rng, rng.choice([5, 64, 129, 400])),
                              enc=rng.choice(encs), kind="long"))
    for nm in (canonical("crc") if thorough else rng.sample(canonical("crc"), 16)):
        cases.append(call("crc", rand_bytes(rng, rng.randint(301, 3000)), nm, "dyn", kind="long"))

    # ---- F. random calls up to the requested number
    weighted = variants * 3 + [("hmac", a) for a in canonical("hmac")] * 3 + [("crc", c) for c in canonical("crc")]
    budget = max(0, (n if thorough else min(n, 400)) - (len(cases) if thorough else 0))
    if thorough:
        budget = min(budget, 30000)
    for _ in range(budget):
        op, v = rng.choice(weighted)
        L = rng.choice([rng.randint(0, 20), rng.randint(0, 130), rng.randint(0, 300)])
        mode = None if v is None else ("lit" if op in ("sha2", "sha3") else rng.choice(["lit", "dyn", "dyn"]))
        if v is not None and op not in ("sha2", "sha3") and rng.random() < 0.2:
            v = v.lower()
        key = rand_bytes(rng, rng.choice([0, 1, 16, 63, 64, 65, 127, 128, 129, rng.randint(0, 260)])) if op == "hmac" else None
        cases.append(call(op, rand_bytes(rng, L), v, mode, key=key,
                          enc=rng.choice(encs) if op == "hmac" else "raw", kind=op))
    return cases


# ------------------------------------------------------------------------------------------------
# rendering
# ------------------------------------------------------------------------------------------------
def arg_bytes(j):
    """bytes of an argument given as a byte list or a vj bytes value; None if it is not bytes"""
    if isinstance(j, list):
        return bytes(j)
    if isinstance(j, dict) and "b" in j:
        return bytes.fromhex(j["b"])
    return None


def arg_coq(j):
    if isinstance(j, list):
        return "(VBytes %s)" % coq_hex(bytes(j).hex())
    return coq_value(j)


def name_value(c):
    """(mode, name bytes or None, vj value or None)"""
    mode = c.get("mode", "default")
    if mode == "dyn" and c.get("namev", None) is not None or (mode == "dyn" and "name" not in c):
        return mode, None, c.get("namev")
    if mode == "default":
        return mode, None, None
    return mode, bytes.fromhex(c["name"]), None


def varg_coq(c):
    mode, nb, nv = name_value(c)
    if mode == "default":
        return "ADefault"
    if mode == "lit":
        return "(ALit %s)" % coq_hex(nb.hex())
    if nb is not None:
        return "(ADyn (VBytes %s))" % coq_hex(nb.hex())
    return "(ADyn %s)" % coq_value(nv)


def py_opinion(c):
    """what the Python reference says the call must return (vj value), for exactly-documented names; else None"""
    op = c["op"]
    x = arg_bytes(c["x"])
    if x is None:
        return None
    mode, nb, nv = name_value(c)
    if mode == "default":
        name = R.DEFAULTS.get(op)
    elif nb is not None:
        try:
            name = nb.decode("utf-8")
        except UnicodeDecodeError:
            return None
    else:
        return None
    if op in ("sha2", "sha3") and mode == "dyn":
        return None
    key = b""
    if op == "hmac":
        key = arg_bytes(c["key"])
        if key is None:
            return None
    r = R.vrl_ref(op, name, x, key)
    if r is None:
        return None
    enc = c.get("enc", "raw")
    if r[0] == "i":
        return vlib.ji(r[1]) if enc == "raw" else None
    b = r[1]
    if enc == "hex":
        b = binascii.hexlify(b)
    elif enc == "b64":
        b = base64.b64encode(b)
    return vlib.jb(b)


def ires_coq(o):
    if "ok" in o:
        return "(IOk %s)" % coq_value(o["ok"])
    e = o.get("err")
    return {"error": "IErr", "abort": "IAbort", "compile": "ICompile"}.get(e, "IPanic")


def is_long(c):
    x = arg_bytes(c["x"])
    k = arg_bytes(c.get("key")) if c.get("key") is not None else None
    return (x is not None and len(x) > MAX_COQ_LEN) or (k is not None and len(k) > MAX_COQ_LEN)


def to_coq(c, o):
    py = py_opinion(c)
    if is_long(c):
        if py is None:
            raise ValueError("long input without a Python opinion")
        return "(CDirect %s %s)" % (FN[c["op"]], vlib.coq_bool(o.get("ok") == py))
    key = arg_coq(c["key"]) if c["op"] == "hmac" else "VNull"
    return "(CCall %s %s %s %s %s %s %s)" % (
        FN[c["op"]], varg_coq(c), arg_coq(c["x"]), key, WRAP[c.get("enc", "raw")], ires_coq(o),
        "None" if py is None else "(Some %s)" % coq_value(py))


def nontrivial(c):
    """a digest was (or should have been) computed: bytes input and a documented name"""
    return py_opinion(c) is not None


def extra_cov(cases, outs):
    accepted = {}
    for c, o in zip(cases, outs):
        if c.get("kind") == "names" and isinstance(o, dict) and "ok" in o:
            accepted.setdefault(c["op"], set()).add(bytes.fromhex(c["name"]).decode("utf-8", "replace") if "name" in c else "<default>")
    return {"accepted_names_seen": {k: len(v) for k, v in sorted(accepted.items())},
            "variants_with_gallina_spec": "all (md5, sha1, 6 sha2, 4 sha3, 5 hmac, 112 crc, 4 xxhash, seahash)",
            "python_only": "inputs longer than %d bytes (kind=long)" % MAX_COQ_LEN}


def main(run, args):
    import checklib
    n = 400 if run.tier == "quick" else 20000
    if args.cases:
        n = args.cases
    return checklib.standard(run, ID, THEOREMS, IMPORTS, "digest", gen_cases, to_coq, n, nontrivial=nontrivial,
                             replay=args.replay, extra_cov=extra_cov)
