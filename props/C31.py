"""C31 — Datadog search matching follows the query semantics."""
import json

import vlib
from vlib import coq_value
import ddlib
from ddlib import coq_tree_opt, leaf, query, event, fld

ID = "C31"
THEOREMS = ["C31_refines", "C31_match_refines", "C31_compiles_iff_wf", "C31_impl_not", "C31_impl_and", "C31_impl_or",
            "C31_impl_range", "C31_impl_range_upper", "C31_impl_range_lower", "C31_impl_range_open",
            "C31_sem_not", "C31_sem_and", "C31_sem_or", "C31_sem_missing", "C31_sem_de_morgan_and",
            "C31_sem_de_morgan_or", "C31_sem_range", "C31_sem_range_fields", "C31_sem_range_upper",
            "C31_sem_range_lower", "C31_leaf_attr_exists", "C31_leaf_attr_equals", "C31_leaf_attr_prefix",
            "C31_leaf_attr_wildcard", "C31_leaf_glob", "C31_leaf_attr_compare_int", "C31_leaf_attr_compare_float",
            "C31_leaf_attr_compare_string", "C31_leaf_zcmp", "C31_leaf_tag_exists", "C31_leaf_tag_equals",
            "C31_leaf_tag_compare", "C31_leaf_word_match", "C31_leaf_default_term", "C31_exists_tags_never", "C31_exists_tags_refuted", "C31_tagcmp_key_refuted",
            "C31_refines_nonvacuous"]
IMPORTS = ("From Coq Require Import List ZArith NArith String.\n"
           "From VRL Require Import Base.Bytes Base.Value Base.Lit Model.DdNode Model.DdMatch Corr.C31.\n"
           "Local Open Scope string_scope.")
MANIFEST = {
    "level": "proof",
    "technique": "Coq proof (nested induction over the query tree) that the closure tree built by build_matcher + VrlFilter, "
                 "when run, equals a direct evaluator `sem`; differential correspondence of the model vs "
                 "match_datadog_query on generated (query, event) pairs; compositional identities checked on the "
                 "implementation alone",
    "text": "Closed Coq theorems, for all queries, events and Display functions: run(build_matcher n) e = sem n e outside two "
            "recorded departures; NOT/AND/OR compose as negb/forallb/existsb on the implementation's own matchers; a range "
            "over one field = both comparisons (inclusive/exclusive), half-open ranges = the remaining comparison, "
            "[* TO *] = existence; De Morgan; each leaf (exists, term, prefix, wildcard via a declarative glob relation, "
            "numeric/string comparisons, tags as key:value) characterised on the addressed values. The model is tied to "
            "the code by running the VRL function on generated queries x events (trees taken from the real parser).",
    "note": "Hypotheses/limits: f64 and timestamp Display are universally quantified functions (the correspondence run "
            "instantiates f64 Display with an exact printer valid for the short dyadic floats it generates); the regex "
            "crate is modelled for the two pattern shapes the code builds (literal text with * -> .*, anchored or between "
            "\\b), bytes >= 0x80 counted as word bytes; attribute paths modelled for dotted plain field names (index/quoted "
            "segments are reported as unmodelled and skipped); Bytes values assumed valid UTF-8. Two genuine defects are "
            "recorded as known findings (C31-exists-tags, C31-tagcmp-key) with `_refuted` witnesses. `?` in a wildcard is "
            "matched literally by the code (regex::escape), not as a one-character wildcard; the model follows the code. "
            "No axioms (Print Assumptions: closed).",
    "design_ref": "DESIGN.md section 5 C31",
}

KINDS = {"single": 0, "not": 1, "and": 2, "or": 3, "range": 4, "same": 5, "implies_exists": 6, "missing": 7, "eq_bounds": 8}


def par(q):
    return "(%s)" % q


NUMB = [0, 1, 2, 5, 7, 10, -3, 100, 0.5, 1.5, 2.0, 5.0, 7.25, 10.0, -0.25, -3.0]


def numtext(b):
    return repr(b) if isinstance(b, float) else str(b)


def numeric_case(rng):
    """numeric comparisons / ranges on a facet whose value sits on or next to the bound (int vs float on both sides)"""
    from vlib import ji, jf, jo
    b = rng.choice(NUMB)
    near = [b, b, float(b), int(b) if float(b).is_integer() else b, b + 1, b - 1, b + 0.5, b - 0.25]
    v = rng.choice(near)
    val = jf(v) if isinstance(v, float) else ji(v)
    f, key = rng.choice([("@a", "a"), ("@n", "n")])
    ev = jo([(key, val)])
    op = rng.choice(ddlib.CMPOPS)
    if rng.random() < 0.6:
        return {"op": "match", "kind": "not", "ev": ev, "qs": ["%s:%s%s" % (f, op, numtext(b)),
                                                               "NOT (%s:%s%s)" % (f, op, numtext(b))]}
    b2 = rng.choice(NUMB)
    incl = rng.random() < 0.5
    br, lo, hi = ("[]", ">=", "<=") if incl else ("{}", ">", "<")
    return {"op": "match", "kind": "range", "ev": ev,
            "qs": ["%s:%s%s TO %s%s" % (f, br[0], numtext(b), numtext(b2), br[1]),
                   "%s:%s%s" % (f, lo, numtext(b)), "%s:%s%s" % (f, hi, numtext(b2))]}


TAGKEYS = ["time", "a", "tag1"]
COLONV = ["12:30", "1:9", "5:zz", ":x", "9:1", "a:", "1:", ":", "10:5", "b:c:d", "5", "zz", "12", "13", "a:b", "9",
          "1:10", "::", "x::y", "30"]
TAGBOUNDS = ["5", "12", "13", "1", "9", "a", "zz", "*", "30", "10", "b", "0", "c"]


def qesc(v):
    return v.replace(":", "\\:")


def tagcolon_case(rng):
    """tags whose value itself contains colons (empty segments, numeric-looking tails), queried by term / wildcard /
    comparison / range on their key"""
    from vlib import js, ja, jo
    k = rng.choice(TAGKEYS)
    vals = [rng.choice(COLONV) for _ in range(rng.randint(1, 3))]
    tags = [js("%s:%s" % (k, v)) for v in vals]
    if rng.random() < 0.3:
        tags.append(js("%s:%s" % (rng.choice(TAGKEYS), rng.choice(COLONV))))
    rng.shuffle(tags)
    ev = jo([("tags", ja(tags))])
    v = rng.choice(vals) if rng.random() < 0.75 else rng.choice(COLONV)
    r = rng.random()
    if r < 0.35:
        e = qesc(v)
        return {"op": "match", "kind": "eq_bounds", "ev": ev,
                "qs": ["%s:%s" % (k, e), "%s:[%s TO *]" % (k, e), "%s:[* TO %s]" % (k, e), "%s:[%s TO %s]" % (k, e, e)]}
    a, b = rng.choice(TAGBOUNDS), rng.choice(TAGBOUNDS)
    if r < 0.65:
        incl = rng.random() < 0.5
        br, lo, hi = ("[]", ">=", "<=") if incl else ("{}", ">", "<")
        if a == "*" or b == "*":
            return {"op": "match", "kind": "single", "ev": ev, "qs": ["%s:%s%s TO %s%s" % (k, br[0], a, b, br[1])]}
        return {"op": "match", "kind": "range", "ev": ev,
                "qs": ["%s:%s%s TO %s%s" % (k, br[0], a, b, br[1]), "%s:%s%s" % (k, lo, a), "%s:%s%s" % (k, hi, b)]}
    if r < 0.8:
        if a == "*":
            a = "5"
        q = "%s:%s%s" % (k, rng.choice(ddlib.CMPOPS), a)
        return {"op": "match", "kind": "not", "ev": ev, "qs": [q, "NOT (%s)" % q]}
    q = rng.choice(["%s:%s" % (k, qesc(v)), "%s:%s*" % (k, qesc(v[:1]) or "x"), "%s:*%s" % (k, qesc(v[-1:]) or "x"),
                    "%s:*" % k, '%s:"%s"' % (k, v)])
    return {"op": "match", "kind": "implies_exists", "ev": ev, "qs": [q, "_exists_:%s" % k]}


MSGS = ["hello world", "foo bar", "hello foo-bar world", "bar_baz foo.bar", "foobar", "a b c", "Foo foo"]


def default_message_case(rng):
    """no other default field than `message`: a field-less leaf and the same leaf on `message:` must agree"""
    from vlib import js, jo
    msg = rng.choice(MSGS)
    kvs = [("message", js(msg))]
    if rng.random() < 0.5:
        kvs.append(("host", js(rng.choice(ddlib.STRV))))
    if rng.random() < 0.3:
        kvs.append(("a", ddlib.attr_value(rng)))
    w = rng.choice(msg.replace("-", " ").split(" ") + ["hello", "foo", "zzz", msg])
    form = rng.choice(["%s", "%s", '"%s"', "%s*", "*%s"])
    if " " in w:
        form = '"%s"'
    v = form % w.replace("-", "\\-")
    return {"op": "match", "kind": "same", "ev": jo(kvs), "qs": [v, "message:%s" % v]}


def gen_case(rng):
    r0 = rng.random()
    if r0 < 0.15:
        return numeric_case(rng)
    if r0 < 0.27:
        return tagcolon_case(rng)
    if r0 < 0.32:
        return default_message_case(rng)
    ev = event(rng)
    r = rng.random()
    d = rng.choice([0, 0, 1, 1, 2, 3])
    if r < 0.2:
        return {"op": "match", "kind": "single", "ev": ev, "qs": [query(rng, d) for _ in range(rng.randint(1, 3))]}
    if r < 0.35:
        q = query(rng, d)
        neg = rng.choice(["NOT (%s)", "-(%s)"]) % q
        return {"op": "match", "kind": "not", "ev": ev, "qs": [q, neg]}
    if r < 0.6:
        k = rng.choice(["and", "or"])
        qs = [query(rng, d) for _ in range(rng.choice([2, 2, 3]))]
        j = {"and": rng.choice([" AND ", " && ", " "]), "or": rng.choice([" OR ", " || "])}[k]
        return {"op": "match", "kind": k, "ev": ev, "qs": qs + [j.join(par(q) for q in qs)]}
    if r < 0.75:
        f = rng.choice([x for x in ddlib.FIELDS if x is not None])
        a, b = rng.choice(ddlib.QCMPV), rng.choice(ddlib.QCMPV)
        incl = rng.random() < 0.5
        br, lo, hi = ("[]", ">=", "<=") if incl else ("{}", ">", "<")
        s = rng.random()
        if s < 0.6:
            return {"op": "match", "kind": "range", "ev": ev,
                    "qs": ["%s:%s%s TO %s%s" % (f, br[0], a, b, br[1]), "%s:%s%s" % (f, lo, a), "%s:%s%s" % (f, hi, b)]}
        if s < 0.75:
            return {"op": "match", "kind": "same", "ev": ev,
                    "qs": ["%s:%s* TO %s%s" % (f, br[0], b, br[1]), "%s:%s%s" % (f, hi, b)]}
        if s < 0.9:
            return {"op": "match", "kind": "same", "ev": ev,
                    "qs": ["%s:%s%s TO *%s" % (f, br[0], a, br[1]), "%s:%s%s" % (f, lo, a)]}
        return {"op": "match", "kind": "same", "ev": ev,
                "qs": ["%s:%s* TO *%s" % (f, br[0], br[1]), "_exists_:%s" % f]}
    if r < 0.83:
        q1, q2 = query(rng, d), query(rng, d)
        if rng.random() < 0.5:
            return {"op": "match", "kind": "same", "ev": ev,
                    "qs": ["NOT ((%s) AND (%s))" % (q1, q2), "(NOT (%s)) OR (NOT (%s))" % (q1, q2)]}
        return {"op": "match", "kind": "same", "ev": ev,
                "qs": ["NOT ((%s) OR (%s))" % (q1, q2), "(NOT (%s)) AND (NOT (%s))" % (q1, q2)]}
    if r < 0.95:
        f = rng.choice([x for x in ddlib.FIELDS if x is not None])
        while True:
            q, _ = leaf(rng, f)
            if not q.startswith("_"):
                break
        return {"op": "match", "kind": "implies_exists", "ev": ev, "qs": [q, "_exists_:%s" % f]}
    f = rng.choice([x for x in ddlib.FIELDS + ddlib.BAD_FIELDS if x is not None])
    return {"op": "match", "kind": "missing", "ev": ev, "qs": ["_missing_:%s" % f, "_exists_:%s" % f]}


def qlist(c):
    """the queries of a case, in order (a dict in the JSON so that the generic shrinker keeps the law's arity)"""
    qs = c["qs"]
    return [qs[k] for k in sorted(qs)] if isinstance(qs, dict) else qs


def freeze(c):
    c["qs"] = {"q%d" % i: q for i, q in enumerate(c["qs"])}
    return c


def gen_cases(run, n):
    cases = [freeze(c) for c in gen_cases0(run, n)]
    if run.tier != "quick" and not getattr(run, "_exhaustive_done", False):
        run._exhaustive_done = True
        cases = exhaustive_cases(run) + cases
    return cases


def gen_cases0(run, n):
    rng = run.rng
    cases = [gen_case(rng) for _ in range(n)]
    # a stream of queries over attributes whose path does not parse
    for _ in range(max(3, n // 60)):
        f = rng.choice(ddlib.BAD_FIELDS)
        q, _ = leaf(rng, f)
        q2 = query(rng, 1)
        cases.append({"op": "match", "kind": "and", "ev": event(rng), "qs": [q, q2, "(%s) AND (%s)" % (q, q2)]})
    return cases


EX_FIELDS = ["@a", "@b.c", "tag1", "host", "message", None, "tags"]


def exhaustive_leaves():
    out = []
    for f in EX_FIELDS:
        p = fld(f)
        out += [p + "foo", p + "5", p + '"foo bar"', p + "fo*", p + "*oo", p + ">5", p + "<=foo", p + "[1 TO 10]",
                p + "{a TO g}", "_exists_:" + (f if f is not None else "_default_")]
    return out


def exhaustive_cases(run):
    """thorough tier: every query of depth <= 2 over the small vocabulary (leaf, NOT leaf, leaf AND/OR leaf), each on
    two events of a fixed pool"""
    rng = run.rng
    pool = [event(rng) for _ in range(16)]
    L = exhaustive_leaves()
    cases = []
    k = 0
    for q in L:
        for _ in range(2):
            cases.append({"op": "match", "kind": "not", "ev": pool[k % len(pool)], "qs": [q, "NOT (%s)" % q]})
            k += 1
    for q1 in L:
        for q2 in L:
            for kind, j in (("and", " AND "), ("or", " OR ")):
                for _ in range(2):
                    cases.append({"op": "match", "kind": kind, "ev": pool[k % len(pool)],
                                  "qs": [q1, q2, "(%s)%s(%s)" % (q1, j, q2)]})
                    k += 1
    return [freeze(c) for c in cases]


def coq_mr(m):
    if m is True:
        return "RTrue"
    if m is False:
        return "RFalse"
    if m == "compile":
        return "RCompile"
    return "ROther"


def to_coq(c, o):
    items = ["(%s, %s)" % (coq_tree_opt(r["t"]), coq_mr(r["m"])) for r in o["r"]]
    return "CM %d %s [%s]" % (KINDS[c["kind"]], coq_value(c["ev"]), "; ".join(items))


def nontrivial(c):
    return c["kind"] != "single"


DEFAULTS = ["message", "custom.error.message", "custom.error.stack", "custom.title", "_default_"]
RESERVED = ["host", "source", "status", "service", "trace_id", "message", "timestamp", "tags"]


def is_tag_attr(a):
    v = a.replace("@", ".")
    return not a.startswith("@") and v not in DEFAULTS and v not in RESERVED


def event_tags(ev):
    for k, v in ev.get("o", []):
        if bytes.fromhex(k) == b"tags":
            return v
    return "absent"


def known_matcher(entry, case, out):
    """Only the law `leaf holds => _exists_ holds` can meet the two findings; recognise each precisely."""
    if case.get("kind") != "implies_exists" or not isinstance(out, dict) or "r" not in out or len(out["r"]) != 2:
        return False
    leaf_t, ex_t = out["r"][0]["t"], out["r"][1]["t"]
    if not isinstance(leaf_t, dict) or not isinstance(ex_t, dict) or ex_t.get("k") != "exists":
        return False
    if out["r"][0]["m"] is not True or out["r"][1]["m"] is not False:
        return False
    tags = event_tags(case["ev"])
    cls = entry["match"]["class"]
    if cls == "exists-tags":
        # the reserved attribute `tags` is present, yet `_exists_:tags` is false
        return ex_t["attr"] == "tags" and tags != "absent"
    if cls == "tagcmp-key":
        # comparison / range on a tag, and the event carries a "key:value" tag with another key
        if leaf_t.get("k") not in ("cmp", "range") or not is_tag_attr(leaf_t["attr"]) or ex_t["attr"] != leaf_t["attr"]:
            return False
        if leaf_t["k"] == "range" and "u" in leaf_t["lo"] and "u" in leaf_t["hi"]:
            return False
        if not isinstance(tags, dict) or "a" not in tags:
            return False
        key = leaf_t["attr"].replace("@", ".").encode()
        for x in tags["a"]:
            if isinstance(x, dict) and "b" in x:
                s = bytes.fromhex(x["b"])
                if b":" in s and s.split(b":", 1)[0] != key:
                    return True
            elif x is not None and not isinstance(x, bool) and isinstance(x, dict):
                continue
        return False
    return False


def main(run, args):
    import checklib
    n = (args.cases or 2000) if run.tier == "quick" else 30000
    return checklib.standard(run, ID, THEOREMS, IMPORTS, "dd", gen_cases, to_coq, n, nontrivial=nontrivial,
                             replay=args.replay, known_matcher=known_matcher)
