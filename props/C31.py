"""C31 — Datadog search matching follows the query semantics."""
import json

import vlib
from vlib import coq_value
import ddlib
from ddlib import coq_tree_opt, leaf, query, event, fld

ID = "C31"
THEOREMS = []
IMPORTS = ("From Coq Require Import List ZArith NArith String.\n"
           "From VRL Require Import Base.Bytes Base.Value Base.Lit Model.DdNode Model.DdMatch Corr.C31.\n"
           "Local Open Scope string_scope.")
MANIFEST = {
    "level": "proof",
    "technique": "",
    "text": "",
    "note": "",
    "design_ref": "DESIGN.md section 5 C31",
}

KINDS = {"single": 0, "not": 1, "and": 2, "or": 3, "range": 4, "same": 5, "implies_exists": 6, "missing": 7}


def par(q):
    return "(%s)" % q


def gen_case(rng):
    ev = event(rng)
    r = rng.random()
    d = rng.choice([0, 0, 1, 1, 2, 3])
    if r < 0.2:
        return {"op": "match", "kind": "single", "ev": ev, "qs": [query(rng, d) for _ in range(rng.randint(1, 3))]}
    if r < 0.35:
        q = query(rng, d)
        neg = rng.choice(["NOT (%s)", "-(%s)"]) % q
        return {"op": "match", "kind": "not", "ev": ev, "qs": [q, neg]}
    if r < 0.6:
        k = rng.choice(["and", "or"])
        qs = [query(rng, d) for _ in range(rng.choice([2, 2, 3]))]
        j = {"and": rng.choice([" AND ", " && ", " "]), "or": rng.choice([" OR ", " || "])}[k]
        return {"op": "match", "kind": k, "ev": ev, "qs": qs + [j.join(par(q) for q in qs)]}
    if r < 0.75:
        f = rng.choice([x for x in ddlib.FIELDS if x is not None])
        a, b = rng.choice(ddlib.QCMPV), rng.choice(ddlib.QCMPV)
        incl = rng.random() < 0.5
        br, lo, hi = ("[]", ">=", "<=") if incl else ("{}", ">", "<")
        s = rng.random()
        if s < 0.6:
            return {"op": "match", "kind": "range", "ev": ev,
                    "qs": ["%s:%s%s TO %s%s" % (f, br[0], a, b, br[1]), "%s:%s%s" % (f, lo, a), "%s:%s%s" % (f, hi, b)]}
        if s < 0.75:
            return {"op": "match", "kind": "same", "ev": ev,
                    "qs": ["%s:%s* TO %s%s" % (f, br[0], b, br[1]), "%s:%s%s" % (f, hi, b)]}
        if s < 0.9:
            return {"op": "match", "kind": "same", "ev": ev,
                    "qs": ["%s:%s%s TO *%s" % (f, br[0], a, br[1]), "%s:%s%s" % (f, lo, a)]}
        return {"op": "match", "kind": "same", "ev": ev,
                "qs": ["%s:%s* TO *%s" % (f, br[0], br[1]), "_exists_:%s" % f]}
    if r < 0.83:
        q1, q2 = query(rng, d), query(rng, d)
        if rng.random() < 0.5:
            return {"op": "match", "kind": "same", "ev": ev,
                    "qs": ["NOT ((%s) AND (%s))" % (q1, q2), "(NOT (%s)) OR (NOT (%s))" % (q1, q2)]}
        return {"op": "match", "kind": "same", "ev": ev,
                "qs": ["NOT ((%s) OR (%s))" % (q1, q2), "(NOT (%s)) AND (NOT (%s))" % (q1, q2)]}
    if r < 0.95:
        f = rng.choice([x for x in ddlib.FIELDS if x is not None])
        while True:
            q, _ = leaf(rng, f)
            if not q.startswith("_"):
                break
        return {"op": "match", "kind": "implies_exists", "ev": ev, "qs": [q, "_exists_:%s" % f]}
    f = rng.choice([x for x in ddlib.FIELDS + ddlib.BAD_FIELDS if x is not None])
    return {"op": "match", "kind": "missing", "ev": ev, "qs": ["_missing_:%s" % f, "_exists_:%s" % f]}


def gen_cases(run, n):
    rng = run.rng
    cases = [gen_case(rng) for _ in range(n)]
    # a stream of queries over attributes whose path does not parse
    for _ in range(max(3, n // 60)):
        f = rng.choice(ddlib.BAD_FIELDS)
        q, _ = leaf(rng, f)
        q2 = query(rng, 1)
        cases.append({"op": "match", "kind": "and", "ev": event(rng), "qs": [q, q2, "(%s) AND (%s)" % (q, q2)]})
    return cases


def coq_mr(m):
    if m is True:
        return "RTrue"
    if m is False:
        return "RFalse"
    if m == "compile":
        return "RCompile"
    return "ROther"


def to_coq(c, o):
    items = ["(%s, %s)" % (coq_tree_opt(r["t"]), coq_mr(r["m"])) for r in o["r"]]
    return "CM %d %s [%s]" % (KINDS[c["kind"]], coq_value(c["ev"]), "; ".join(items))


def nontrivial(c):
    return c["kind"] != "single"


def known_matcher(entry, case, out):
    return False


def main(run, args):
    import checklib
    n = (args.cases or 2500) if run.tier == "quick" else 40000
    return checklib.standard(run, ID, THEOREMS, IMPORTS, "dd", gen_cases, to_coq, n, nontrivial=nontrivial,
                             replay=args.replay, known_matcher=known_matcher)
