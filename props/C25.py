"""C25 — Paired conversion functions are mutually inverse."""
import json

import vlib
from vlib import coq_value, coq_hex, jb, js, ji, jts, jo, ja
import gen

ID = "C25"
THEOREMS = ["C25_int", "C25_int_default_base", "C25_int_min_roundtrips", "C25_ntoa_aton", "C25_aton_ntoa", "C25_aton_ntoa_accepted", "C25_ntop_pton_v4",
            "C25_pton_ntop_accepted_v4", "C25_to6_to4_accepted",
            "C25_ipv6_text", "C25_ntop_pton_v6", "C25_ipv4_mapped", "C25_entries", "C25_flatten",
            "C25_flatten_single_char_separator", "C25_flatten_bordered_separator_refuted", "C25_unix_from_to",
            "C25_unix_to_from", "C25_unix_to_from_exact", "C25_calendar_inverse", "C25_timestamp_text_layouts_partial",
            "C25_hypotheses_nonvacuous", "C25_timestamp_text_nonvacuous", "C25_ipv6_nonvacuous",
            "C25_flatten_nonvacuous"]
IMPORTS = ("From Coq Require Import String.\nFrom Coq Require Import List NArith ZArith.\n"
           "From VRL Require Import Base.Bytes Base.Value Base.Lit Model.ConvRes Model.IntText Model.Ip Model.Entries "
           "Model.Flatten Model.UnixTs Model.TsText Corr.C25.\nLocal Open Scope string_scope.")

I64_MIN, I64_MAX = -2**63, 2**63 - 1
TS_MIN_S, TS_MAX_S = -8334601228800, 8210266876799
TS_MIN_NS, TS_MAX_NS = TS_MIN_S * 10**9, TS_MAX_S * 10**9 + 999999999
UNITS = ["seconds", "milliseconds", "microseconds", "nanoseconds"]
UNIT_COQ = {"seconds": "Seconds", "milliseconds": "Milliseconds", "microseconds": "Microseconds", "nanoseconds": "Nanoseconds"}
UNIT_NS = {"seconds": 10**9, "milliseconds": 10**6, "microseconds": 10**3, "nanoseconds": 1}
FULL_FORMATS = ["%+", "%Y-%m-%dT%H:%M:%S%.9f%z", "%Y-%m-%dT%H:%M:%S%.f%:z", "%Y-%m-%d %H:%M:%S.%f",
                "%s.%f", "%s%.9f", "%FT%T%.9f%Z"]
OTHER_FORMATS = ["%Y-%m-%dT%H:%M:%S%z", "%Y-%m-%dT%H:%M:%S%.3f%z", "%d/%b/%Y:%T %z", "%s", "%F", "%T"]


# ------------------------------------------------------------------------------------------------
# function descriptors: {"fn": name, ...optional args as JSON values...} -> Gallina term
# (the harness turns the same descriptor into VRL source: arguments are read from event fields, so they
#  are runtime-typed)
# ------------------------------------------------------------------------------------------------

def coq_optv(fn, key):
    return "(Some %s)" % coq_value(fn[key]) if key in fn else "None"


def coq_fn(fn):
    n = fn["fn"]
    if n == "format_int":
        return "(FFormatInt %s)" % coq_optv(fn, "base")
    if n == "parse_int":
        return "(FParseInt %s)" % coq_optv(fn, "base")
    simple = {"ip_aton": "FAton", "ip_ntoa": "FNtoa", "ip_pton": "FPton", "ip_ntop": "FNtop", "ip_to_ipv6": "FTo6",
              "ipv6_to_ipv4": "FTo4", "to_entries": "FToEntries", "from_entries": "FFromEntries"}
    if n in simple:
        return simple[n]
    if n == "flatten":
        return "(FFlatten %s [%s])" % (coq_optv(fn, "sep"), "; ".join(coq_hex(k.encode().hex()) for k in fn.get("except", [])))
    if n == "unflatten":
        return "(FUnflatten %s %s)" % (coq_optv(fn, "sep"), coq_optv(fn, "recursive"))
    if n == "to_unix_timestamp":
        return "(FToUnix %s)" % UNIT_COQ[fn["unit"]]
    if n == "from_unix_timestamp":
        return "(FFromUnix %s)" % UNIT_COQ[fn["unit"]]
    if n == "format_timestamp":
        return "(FFormatTs %s)" % coq_value(fn["fmt"])
    if n == "parse_timestamp":
        return "(FParseTs %s)" % coq_value(fn["fmt"])
    raise ValueError(n)


def mk(op, f, g, x):
    """a case: the harness (harness/src/bin/pairs.rs) writes the VRL sources and the event from f, g and x"""
    return {"op": op, "f": f, "g": g, "x": x}


def coq_step(j):
    if j is None:
        return "SNone"
    if "ok" in j:
        return "(SOk %s)" % coq_value(j["ok"])
    if "panic" in j:
        return "SPanic"
    if j.get("err") in ("abort", "error"):
        return "SErr"
    raise ValueError("unexpected step %r (a VRL source of the check did not compile?)" % (j,))


def to_coq(c, o):
    return "Case %s %s %s %s %s" % (coq_fn(c["f"]), "(Some %s)" % coq_fn(c["g"]) if c["g"] else "None",
                                   coq_value(c["x"]), coq_step(o["fwd"]), coq_step(o.get("back")))


# ------------------------------------------------------------------------------------------------
# generators
# ------------------------------------------------------------------------------------------------

def rand_i64(rng):
    r = rng.random()
    if r < 0.4:
        return rng.choice(gen.INT_EDGES)
    if r < 0.55:
        b = rng.randint(2, 36)
        return gen.clamp_i64(rng.choice([1, -1]) * (b ** rng.randint(0, 63)) + rng.randint(-1, 1))
    if r < 0.7:
        return rng.randint(-1000, 1000)
    return rng.randint(I64_MIN, I64_MAX)


def to_base(z, b):
    digs = "0123456789abcdefghijklmnopqrstuvwxyz"
    n = abs(z)
    s = ""
    while True:
        s = digs[n % b] + s
        n //= b
        if n == 0:
            break
    return ("-" if z < 0 else "") + s


def gen_int(rng, n):
    cases = []
    # every base at the i64 extremes
    for b in range(2, 37):
        for z in (I64_MIN, I64_MIN + 1, I64_MAX, 0, -1):
            cases.append(mk("int", {"fn": "format_int", "base": ji(b)}, {"fn": "parse_int", "base": ji(b)}, ji(z)))
    for _ in range(n):
        r = rng.random()
        z = rand_i64(rng)
        if r < 0.7:
            b = rng.randint(2, 36)
            cases.append(mk("int", {"fn": "format_int", "base": ji(b)}, {"fn": "parse_int", "base": ji(b)}, ji(z)))
        elif r < 0.8:   # default base on one or both sides
            f = {"fn": "format_int"} if rng.random() < 0.7 else {"fn": "format_int", "base": ji(10)}
            g = {"fn": "parse_int"} if rng.random() < 0.7 else {"fn": "parse_int", "base": ji(10)}
            cases.append(mk("int", f, g, ji(z)))
        elif r < 0.9:   # bases outside the range / of the wrong type, mismatched bases, non-integers
            b = rng.choice([ji(0), ji(1), ji(37), ji(-2), ji(I64_MAX), js("10"), None, True, ji(16), ji(8)])
            pb = rng.choice([b, ji(rng.randint(2, 36))])
            x = ji(z) if rng.random() < 0.8 else gen.rand_scalar(rng)
            cases.append(mk("int", {"fn": "format_int", "base": b}, {"fn": "parse_int", "base": pb}, x))
        else:
            cases.append(mk("int", {"fn": "format_int", "base": ji(rng.randint(2, 36))}, {"fn": "parse_int"}, ji(z)))
    return cases


def gen_parse_int(rng, n):
    cases = []
    fixed = ["", "0", "00", "0b", "0x", "0o", "0b102", "0o8", "0xg", "-0x1", "0x-1", "+5", "-", "+", "+-5", "--5", " 5", "5 ",
             "5\n", "0B1", "0X1f", "1_000", "9223372036854775807", "9223372036854775808", "-9223372036854775808",
             "-9223372036854775809", "0x7fffffffffffffff", "0x8000000000000000", "0b" + "1" * 63, "0b" + "1" * 64,
             "0o777777777777777777777", "0o1000000000000000000000", "007", "08", "é", "0é", "1١", "zz", "ZZ", "Zz"]
    for s in fixed:
        for base in (None, 2, 8, 10, 16, 36):
            g = {"fn": "parse_int"} if base is None else {"fn": "parse_int", "base": ji(base)}
            cases.append(mk("parse_int", g, None, js(s)))
    for _ in range(n):
        b = rng.randint(2, 36)
        z = rand_i64(rng)
        s = to_base(z, b)
        r = rng.random()
        if r < 0.25:
            s = s.upper()
        elif r < 0.4:
            s = rng.choice(["+", "0x", "0b", "0o", "0", "-0"]) + s.lstrip("-")
        elif r < 0.55:    # just beyond the range
            s = to_base(rng.choice([I64_MAX + 1, I64_MIN - 1, I64_MAX + rng.randint(1, 100), 2**64, -(2**64)]), b)
        elif r < 0.7 and s:
            i = rng.randrange(len(s))
            s = s[:i] + rng.choice("0123456789abcxyzABZ+-_ .") + s[i + 1:]
        base = rng.choice([b, b, b, rng.randint(2, 36), None])
        g = {"fn": "parse_int"} if base is None else {"fn": "parse_int", "base": ji(base)}
        x = js(s) if rng.random() < 0.97 else gen.rand_scalar(rng)
        cases.append(mk("parse_int", g, None, x))
    return cases


OCTETS = [0, 1, 9, 10, 11, 99, 100, 101, 127, 128, 199, 200, 249, 250, 254, 255]


def rand_octets(rng):
    return [rng.choice(OCTETS) if rng.random() < 0.7 else rng.randrange(256) for _ in range(4)]


def v4_text(o):
    return ".".join(str(x) for x in o)


V4_BAD = ["", "1", "1.2.3", "1.2.3.4.5", "1.2.3.", ".1.2.3", "1..2.3", "01.2.3.4", "1.2.3.04", "00.0.0.0", "256.1.1.1", "1.2.3.256",
          "1.2.3.1000", "0001.2.3.4", " 1.2.3.4", "1.2.3.4 ", "1.2.3.4\n", "0x1.2.3.4", "1.2.3.-4", "+1.2.3.4", "1.2.3.4a",
          "a.b.c.d", "1,2,3,4", "١.2.3.4", "255.255.255.255", "0.0.0.0", "255.255.255.2555", "100.100.100.1000",
          "1.2.3.4.", "1.2.3.4:80", "1.2.3.4/8", "16909060", "1.2.772", "::1", "::ffff:1.2.3.4"]


def gen_ipv4(rng, n):
    cases = []
    for nn in (0, 1, 255, 256, 65535, 65536, 2**24 - 1, 2**24, 2**31 - 1, 2**31, 2**32 - 1, 2**32, 2**32 + 1, -1, I64_MIN, I64_MAX):
        cases.append(mk("ntoa_aton", {"fn": "ip_ntoa"}, {"fn": "ip_aton"}, ji(nn)))
    for s in V4_BAD:
        cases.append(mk("aton_ntoa", {"fn": "ip_aton"}, {"fn": "ip_ntoa"}, js(s)))
        cases.append(mk("pton_ntop", {"fn": "ip_pton"}, {"fn": "ip_ntop"}, js(s)))
        cases.append(mk("to6_to4", {"fn": "ip_to_ipv6"}, {"fn": "ipv6_to_ipv4"}, js(s)))
    for _ in range(n):
        o = rand_octets(rng)
        r = rng.random()
        if r < 0.25:
            v = ((o[0] * 256 + o[1]) * 256 + o[2]) * 256 + o[3]
            x = ji(v) if rng.random() < 0.95 else gen.rand_scalar(rng)
            cases.append(mk("ntoa_aton", {"fn": "ip_ntoa"}, {"fn": "ip_aton"}, x))
        elif r < 0.45:
            cases.append(mk("aton_ntoa", {"fn": "ip_aton"}, {"fn": "ip_ntoa"}, js(mutate_text(rng, v4_text(o)))))
        elif r < 0.6:
            cases.append(mk("ntop_pton", {"fn": "ip_ntop"}, {"fn": "ip_pton"}, jb(bytes(o))))
        elif r < 0.7:
            cases.append(mk("pton_ntop", {"fn": "ip_pton"}, {"fn": "ip_ntop"}, js(mutate_text(rng, v4_text(o)))))
        elif r < 0.85:
            cases.append(mk("to6_to4", {"fn": "ip_to_ipv6"}, {"fn": "ipv6_to_ipv4"}, js(mutate_text(rng, v4_text(o)))))
        else:
            cases.append(mk("to4_to6", {"fn": "ipv6_to_ipv4"}, {"fn": "ip_to_ipv6"}, js(mutate_text(rng, "::ffff:" + v4_text(o)))))
    return cases


def mutate_text(rng, s, p=0.2):
    """mostly the text itself; sometimes one character replaced, inserted or dropped"""
    if rng.random() >= p or not s:
        return s
    i = rng.randrange(len(s))
    r = rng.random()
    ch = rng.choice("0123456789abcdefABCDEFg:.: %+-")
    if r < 0.4:
        return s[:i] + ch + s[i + 1:]
    if r < 0.7:
        return s[:i] + ch + s[i:]
    return s[:i] + s[i + 1:]


GROUPS = [1, 0xffff, 0x10, 0x100, 0x1000, 0xabc, 0xa, 0xff, 0x102, 0xfffe]


def rand_segments(rng, pattern=None):
    """8 segments; bit i of pattern set = segment i is zero"""
    if pattern is None:
        pattern = rng.randrange(256)
    return [0 if (pattern >> i) & 1 else (rng.choice(GROUPS) if rng.random() < 0.6 else rng.randint(1, 0xffff)) for i in range(8)]


def seg_bytes(g):
    return b"".join(bytes([x >> 8, x & 255]) for x in g)


def v6_full_text(g, rng):
    """a non-canonical spelling of the address: random case, leading zeros, any legal :: placement, embedded IPv4"""
    def grp(x):
        s = "%x" % x
        if rng.random() < 0.3:
            s = s.rjust(rng.randint(len(s), 4), "0")
        if rng.random() < 0.3:
            s = s.upper()
        return s
    parts = [grp(x) for x in g]
    tail4 = rng.random() < 0.25
    if tail4:
        parts = parts[:6] + ["%d.%d.%d.%d" % (g[6] >> 8, g[6] & 255, g[7] >> 8, g[7] & 255)]
    ng = len(parts)
    # zero runs that may be written as ::
    runs = []
    i = 0
    lim = 6 if tail4 else 8
    while i < lim:
        if g[i] == 0:
            j = i
            while j < lim and g[j] == 0:
                j += 1
            for a in range(i, j):
                for b in range(a + 1, j + 1):
                    runs.append((a, b))
            i = j
        else:
            i += 1
    if runs and rng.random() < 0.7:
        a, b = rng.choice(runs)
        return ":".join(parts[:a]) + "::" + ":".join(parts[b:])
    return ":".join(parts)


V6_BAD = [":", "::", ":::", "::1", "1::", "1:::2", "1::2::3", "1:2:3:4:5:6:7:8", "1:2:3:4:5:6:7:8:9", "1:2:3:4:5:6:7", "1:2:3:4:5:6:7::",
          "::2:3:4:5:6:7:8", "1:2:3:4:5:6:7::8", "1::3:4:5:6:7:8", "12345::", "::12345", "g::", "::g", "1:2:3:4:5:6:1.2.3.4",
          "1:2:3:4:5:6:7:1.2.3.4", "1:2:3:4:5:1.2.3.4", "::1.2.3.4", "::1.2.3", "::1.2.3.4.5", "1.2.3.4::", "::1.2.3.4:5", "1::1.2.3.4",
          "::ffff:1.2.3.4", "::FFFF:1.2.3.4", "::ffff:01.2.3.4", "::ffff:0:1.2.3.4", "::fffe:1.2.3.4", "0:0:0:0:0:ffff:1.2.3.4",
          "0:0:0:0:0:ffff:102:304", "::ffff:102:304", "[::1]", "::1%eth0", "::1/128", " ::1", "::1 ", "1:", ":1", "1:2", "0:0:0:0:0:0:0:0",
          "0:0:0:0:0:0:0:1", "0000:0000:0000:0000:0000:0000:0000:0001", "00001::", "::0", "0::", "0::0", "1:0:0:2:0:0:0:3", "1:0:0:0:2:0:0:3",
          "fe80::1:2:3:4", "2001:db8::", "::ffff:255.255.255.255", "::ffff:0.0.0.0", "::0.0.0.0", "::0.0.0.1", "::1:0.0.0.0",
          "::١", "1::é"]


def gen_ipv6(rng, n):
    cases = []
    # every zero-run shape once, canonical printer -> parser
    for pat in range(256):
        g = rand_segments(rng, pat)
        cases.append(mk("ntop_pton", {"fn": "ip_ntop"}, {"fn": "ip_pton"}, jb(seg_bytes(g))))
    for s in V6_BAD:
        cases.append(mk("pton_ntop", {"fn": "ip_pton"}, {"fn": "ip_ntop"}, js(s)))
        cases.append(mk("to6_to4", {"fn": "ip_to_ipv6"}, {"fn": "ipv6_to_ipv4"}, js(s)))
        cases.append(mk("to4_to6", {"fn": "ipv6_to_ipv4"}, {"fn": "ip_to_ipv6"}, js(s)))
    for ln in (0, 1, 3, 5, 8, 15, 17, 32):
        cases.append(mk("ntop_pton", {"fn": "ip_ntop"}, {"fn": "ip_pton"}, jb(bytes(range(ln)))))
    for _ in range(n):
        r = rng.random()
        if r < 0.15:      # v4-mapped, v4-compatible and their neighbours
            o = rand_octets(rng)
            g = [0, 0, 0, 0, rng.choice([0, 0, 0, 1]), rng.choice([0xffff, 0xffff, 0, 0xfffe]), o[0] * 256 + o[1], o[2] * 256 + o[3]]
        else:
            g = rand_segments(rng)
        r = rng.random()
        if r < 0.45:
            cases.append(mk("ntop_pton", {"fn": "ip_ntop"}, {"fn": "ip_pton"}, jb(seg_bytes(g))))
        elif r < 0.75:
            cases.append(mk("pton_ntop", {"fn": "ip_pton"}, {"fn": "ip_ntop"}, js(mutate_text(rng, v6_full_text(g, rng)))))
        elif r < 0.88:
            cases.append(mk("to6_to4", {"fn": "ip_to_ipv6"}, {"fn": "ipv6_to_ipv4"}, js(mutate_text(rng, v6_full_text(g, rng)))))
        else:
            cases.append(mk("to4_to6", {"fn": "ipv6_to_ipv4"}, {"fn": "ip_to_ipv6"}, js(mutate_text(rng, v6_full_text(g, rng)))))
    return cases


def rand_entry(rng):
    kname = rng.choice(["key", "key", "key", "Key", "name", "Name", "k"])
    key = rng.choice([js("a"), js("b"), js("c d"), js(""), js("é"), None, False, True, ji(1), js("a")])
    kv = [(kname, key)]
    if rng.random() < 0.3:   # a second alias
        kv.append((rng.choice(["key", "Key", "name", "Name"]), rng.choice([js("z"), None, False, ji(2)])))
    r = rng.random()
    if r < 0.7:
        kv.append(("value", gen.rand_value(rng, depth=1)))
    elif r < 0.85:
        kv.append(("Value", gen.rand_value(rng, depth=1)))
    if rng.random() < 0.1:
        kv.append(("extra", ji(0)))
    d = {}
    for k, v in kv:
        d[k] = v
    return jo(list(d.items()))


def gen_entries(rng, n):
    cases = []
    keys = ["a", "b", "c d", "", "key", "value", "é", "Key", "zz"]
    for _ in range(n):
        r = rng.random()
        if r < 0.5:
            x = gen.rand_object(rng, depth=3, fields=keys)
            cases.append(mk("entries", {"fn": "to_entries"}, {"fn": "from_entries"}, x))
        elif r < 0.6:
            x = gen.rand_value(rng, depth=2)     # arrays (integer keys: from_entries refuses), scalars
            cases.append(mk("entries", {"fn": "to_entries"}, {"fn": "from_entries"}, x))
        elif r < 0.68:   # well-formed entries with repeated keys, any order: the last one wins
            ks = [rng.choice(["a", "b", "a", "zz"]) for _ in range(rng.randint(2, 5))]
            x = ja([jo([(rng.choice(["key", "key", "name", "Key"]), js(k)),
                        (rng.choice(["value", "value", "Value"]), ji(i))]) for i, k in enumerate(ks)])
            cases.append(mk("from_entries", {"fn": "from_entries"}, {"fn": "to_entries"}, x))
        elif r < 0.78:   # canonical entry arrays, sorted unique keys
            ks = sorted({rng.choice(keys) for _ in range(rng.randint(0, 4))}, key=lambda k: k.encode())
            x = ja([jo([("key", js(k)), ("value", gen.rand_value(rng, depth=1))]) for k in ks])
            cases.append(mk("from_entries", {"fn": "from_entries"}, {"fn": "to_entries"}, x))
        else:
            x = ja([rand_entry(rng) if rng.random() < 0.9 else gen.rand_value(rng, depth=1) for _ in range(rng.randint(0, 4))])
            if rng.random() < 0.05:
                x = gen.rand_scalar(rng)
            cases.append(mk("from_entries", {"fn": "from_entries"}, {"fn": "to_entries"}, x))
    return cases


SEPS = [".", ".", ".", "_", "::", "aa", "ab", "aba", "é", "/"]
FLAT_KEYS_CLEAN = ["a", "b", "c", "k", "x", "key", "z9", ""]
FLAT_KEYS_ANY = FLAT_KEYS_CLEAN + ["a.b", "x_y", "xa", "ba", "ab", "aba", "b.", ".b", "é", "p::q", "c d", "a/b", "."]


def rand_flat_obj(rng, keys, depth, allow_empty):
    n = rng.randint(0 if allow_empty else 1, 3)
    keys = sorted(set(keys))          # an object has each key once
    ks = rng.sample(keys, min(n, len(keys)))
    kvs = []
    for k in ks:
        r = rng.random()
        if depth > 0 and r < 0.45:
            v = rand_flat_obj(rng, keys, depth - 1, allow_empty)
        elif r < 0.55:
            v = ja([gen.rand_value(rng, depth=1, fields=["a", "a.b"]) for _ in range(rng.randint(0 if allow_empty else 1, 2))])
        else:
            v = gen.rand_scalar(rng)
        kvs.append((k, v))
    return jo(kvs)


def gen_flatten(rng, n):
    cases = []
    for _ in range(n):
        sep = rng.choice(SEPS)
        r = rng.random()
        if r < 0.45:     # inside the property's domain (for unbordered separators)
            keys = [k for k in FLAT_KEYS_CLEAN + ["xa", "ba", "c d", "é", "a/b"] if sep not in k]
            x = rand_flat_obj(rng, keys, 3, False)
        elif r < 0.6:    # empty containers allowed
            keys = [k for k in FLAT_KEYS_CLEAN if sep not in k]
            x = rand_flat_obj(rng, keys, 3, True)
        elif r < 0.8:    # keys may contain the separator
            x = rand_flat_obj(rng, FLAT_KEYS_ANY, 2, True)
        else:
            x = gen.rand_value(rng, depth=3, fields=["a", "b", "a.b"])   # arrays (deep array flatten), scalars
        f = {"fn": "flatten", "sep": js(sep)}
        g = {"fn": "unflatten", "sep": js(sep)}
        q = rng.random()
        if sep == "." and q < 0.5:
            f = {"fn": "flatten"}
            g = {"fn": "unflatten"}
        if q > 0.8:
            g["recursive"] = rng.choice([True, False])
        if rng.random() < 0.08:
            f["except"] = rng.sample(["a", "b", "k", "key"], rng.randint(1, 2))
        if rng.random() < 0.03:
            f["sep"] = rng.choice([ji(1), None])
        cases.append(mk("flatten", f, g, x))
    return cases


UNFLAT_KEYS = ["a", "b", "a.b", "a.c", "a.b.c", "a.b.d", "b.c", "a..b", ".a", "a.", ".", "..", "", "x_y", "x_y_z", "x__y", "c d.e", "é.f"]


def gen_unflatten(rng, n):
    cases = []
    for _ in range(n):
        sep = rng.choice([".", ".", ".", "_", "..", "__"])
        ks = rng.sample(UNFLAT_KEYS, rng.randint(0, 5))
        kvs = []
        for k in ks:
            r = rng.random()
            if r < 0.25:
                v = jo([(kk, gen.rand_scalar(rng)) for kk in rng.sample(UNFLAT_KEYS, rng.randint(0, 3))])
            elif r < 0.35:
                v = ja([jo([("p.q", ji(1))])])
            else:
                v = gen.rand_scalar(rng)
            kvs.append((k, v))
        x = jo(kvs) if rng.random() < 0.97 else gen.rand_value(rng, depth=1)
        g = {"fn": "unflatten"}
        if sep != "." or rng.random() < 0.5:
            g["sep"] = js(sep)
        if rng.random() < 0.5:
            g["recursive"] = rng.choice([True, False, False, None])
        cases.append(mk("unflatten", g, None, x))
    return cases


TS_EDGES = [0, 1, -1, 999999999, 10**9, -10**9, -999999999, -10**9 - 1, 123456789, -123456789, 1600000000 * 10**9 + 123456789,
            1600000000 * 10**9 + 120000000, 1600000000 * 10**9, -1500000000, 951782400 * 10**9, 68169599 * 10**9 + 5,
            253402300799 * 10**9 + 999999999, 253402300800 * 10**9, -62167219200 * 10**9, -62167219200 * 10**9 - 1,
            TS_MIN_NS, TS_MIN_NS + 1, TS_MAX_NS, TS_MAX_NS - 1, I64_MIN, I64_MIN - 1, I64_MIN + 1, I64_MAX, I64_MAX + 1, I64_MAX - 1,
            -1000000, -1000001, -999999, 1000000, 999, 1000, 1001, -999, -1000, -1001, 86400 * 10**9, -86400 * 10**9 - 1]


def rand_ts(rng):
    r = rng.random()
    if r < 0.4:
        return rng.choice(TS_EDGES)
    if r < 0.55:
        return max(TS_MIN_NS, min(TS_MAX_NS, rng.choice(TS_EDGES) + rng.randint(-2000, 2000)))
    if r < 0.75:
        return rng.randint(-2 * 10**18, 2 * 10**18)
    if r < 0.9:
        return rng.randint(I64_MIN - 10**12, I64_MAX + 10**12)
    return rng.randint(TS_MIN_NS, TS_MAX_NS)


def gen_unix(rng, n):
    cases = []
    int_edges = []
    for u in UNITS:
        k = 10**9 // UNIT_NS[u]
        int_edges += [TS_MIN_S * k - 1, TS_MIN_S * k, TS_MIN_S * k + 1, TS_MAX_S * k + k - 1, TS_MAX_S * k + k, TS_MAX_S * k - 1]
    int_edges += gen.INT_EDGES
    for u in UNITS:
        for ns in TS_EDGES:
            cases.append(mk("to_from_unix", {"fn": "to_unix_timestamp", "unit": u}, {"fn": "from_unix_timestamp", "unit": u}, jts(ns)))
        for v in int_edges:
            if I64_MIN <= v <= I64_MAX:
                cases.append(mk("from_to_unix", {"fn": "from_unix_timestamp", "unit": u}, {"fn": "to_unix_timestamp", "unit": u}, ji(v)))
    for _ in range(n):
        u = rng.choice(UNITS)
        u2 = u if rng.random() < 0.9 else rng.choice(UNITS)
        if rng.random() < 0.5:
            x = jts(rand_ts(rng)) if rng.random() < 0.97 else gen.rand_scalar(rng)
            cases.append(mk("to_from_unix", {"fn": "to_unix_timestamp", "unit": u}, {"fn": "from_unix_timestamp", "unit": u2}, x))
        else:
            r = rng.random()
            v = rng.choice(int_edges) + rng.randint(-1, 1) if r < 0.4 else rand_ts(rng) // UNIT_NS[u]
            v = gen.clamp_i64(v)
            x = ji(v) if rng.random() < 0.97 else gen.rand_scalar(rng)
            cases.append(mk("from_to_unix", {"fn": "from_unix_timestamp", "unit": u}, {"fn": "to_unix_timestamp", "unit": u2}, x))
    return cases


def gen_tstext(rng, n):
    cases = []
    for f in FULL_FORMATS:
        for ns in TS_EDGES:
            if TS_MIN_NS <= ns <= TS_MAX_NS:
                cases.append(mk("ts_text", {"fn": "format_timestamp", "fmt": js(f)}, {"fn": "parse_timestamp", "fmt": js(f)}, jts(ns)))
    for _ in range(n):
        f = rng.choice(FULL_FORMATS) if rng.random() < 0.85 else rng.choice(OTHER_FORMATS)
        x = jts(rand_ts(rng)) if rng.random() < 0.98 else gen.rand_scalar(rng)
        cases.append(mk("ts_text", {"fn": "format_timestamp", "fmt": js(f)}, {"fn": "parse_timestamp", "fmt": js(f)}, x))
    return cases


def rand_ts_fields_text(rng, fmt):
    """a text in (or near) the layout of one of the four modelled full-precision formats, built from fields:
    mostly valid, sometimes an impossible date/time, an unusual year, offset, fraction, or white space"""
    y = rng.choice([1970, 2024, 2000, 1900, 1, 0, 9999, 1969, 2023, rng.randint(0, 9999)])
    if rng.random() < 0.8:     # a real date and time of day
        m = rng.randint(1, 12)
        d = rng.randint(1, 28) if rng.random() < 0.7 else rng.choice([29, 30, 31])
        hh, mi = rng.randint(0, 23), rng.randint(0, 59)
        ss = rng.randint(0, 59) if rng.random() < 0.9 else 60
    else:
        m = rng.choice([1, 2, 2, 12, 0, 13])
        d = rng.choice([1, 28, 29, 30, 31, 0, 32])
        hh = rng.choice([0, 23, 24])
        mi = rng.choice([0, 59, 60])
        ss = rng.choice([0, 59, 60, 61])
    r = rng.random()
    if r < 0.06:
        ys = rng.choice(["+10000", "-0001", "+262142", "-262143", "+262143", "-262144", "10000", "+0000", "-0000", "+1", "12345",
                         "+99999999999", "-2147483649", "+2147483647", "99999999999999999999"])
    elif r < 0.1:
        ys = "%d" % y          # not zero-padded
    else:
        ys = "%04d" % y
    two = lambda v: ("%02d" % v) if rng.random() < 0.97 else ("%d" % v)
    ns = rng.choice([0, 5, 120000000, 123456000, 123456789, 999999999, 100, rng.randrange(10**9)])
    digits = rng.choice([9, 9, 9, 3, 6, 1, 2, 10, 12])
    fr = ("%09d" % ns)[:digits] if digits <= 9 else ("%09d" % ns) + "7" * (digits - 9)
    offs = rng.choice(["+0000", "+00:00", "-0000", "+0130", "-01:30", "+2359", "-23:59", "+0000", "+00:00"]) if rng.random() < 0.8 else \
        rng.choice(["Z", "UTC", "+2400", "+0060", "z", "utc", "+00", "+0:00", " +00:00", "+00 00", "+00::00", "", "+000", "\u22120100"])
    sep = "T"
    if fmt == "%Y-%m-%d %H:%M:%S.%f":
        sep = rng.choice([" ", " ", " ", "  ", "T", ""])
        frac = "." + fr if rng.random() < 0.92 else rng.choice(["", ".", fr])
        offs = "" if rng.random() < 0.93 else rng.choice(["Z", "+0000", " "])
    else:
        if fmt == "%+":
            sep = rng.choice(["T", "T", "t", " ", "  ", "_", ""])
        frac = "." + fr if rng.random() < 0.8 else rng.choice(["", ".", "," + fr])
    date = ys + "-" + two(m) + "-" + two(d)
    time_ = two(hh) + ":" + two(mi) + ":" + two(ss)
    if rng.random() < 0.06:     # white space inside (accepted before numbers; around separators only by %+)
        date = date.replace("-", rng.choice(["- ", " -"]), 1)
    if rng.random() < 0.05:
        time_ = time_.replace(":", rng.choice([": ", " :"]), 1)
    text = date + sep + time_ + frac + offs
    if rng.random() < 0.05:
        text += rng.choice([" ", "x", "0"])
    if rng.random() < 0.03:
        text = " " + text
    return text


MODELLED_FORMATS = FULL_FORMATS[:4]


def gen_parse_ts(rng, n):
    cases = []
    for _ in range(n):
        fmt = rng.choice(MODELLED_FORMATS)
        x = js(rand_ts_fields_text(rng, fmt)) if rng.random() < 0.97 else gen.rand_scalar(rng)
        cases.append(mk("parse_ts", {"fn": "parse_timestamp", "fmt": js(fmt)}, None, x))
    return cases


def gen_cases(run, n):
    rng = run.rng
    u = max(1, n // 100)
    cases = []
    cases += gen_int(rng, 14 * u)
    cases += gen_parse_int(rng, 8 * u)
    cases += gen_ipv4(rng, 12 * u)
    cases += gen_ipv6(rng, 16 * u)
    cases += gen_entries(rng, 10 * u)
    cases += gen_flatten(rng, 16 * u)
    cases += gen_unflatten(rng, 6 * u)
    cases += gen_unix(rng, 10 * u)
    cases += gen_tstext(rng, 8 * u)
    cases += gen_parse_ts(rng, 8 * u)
    return cases


# ------------------------------------------------------------------------------------------------
# known findings
# ------------------------------------------------------------------------------------------------

def obj_keys_nested(j):
    """keys of the object and of the objects nested in it through objects only (arrays are leaves of flatten)"""
    out = []
    if isinstance(j, dict) and "o" in j:
        for k, v in j["o"]:
            out.append(bytes.fromhex(k))
            out += obj_keys_nested(v)
    return out


def bordered_key(sep, keys):
    """some key does not contain the separator, yet key+separator contains it before the end of the key"""
    for k in keys:
        if sep and sep not in k and (k + sep).find(sep) < len(k):
            return True
    return False


def known_matcher(entry, case, out):
    m = entry.get("match", {})
    kind = m.get("kind")
    f = case.get("f", {})
    x = case.get("x")
    if kind == "flatten_bordered_separator":
        if f.get("fn") != "flatten":
            return False
        sepv = f.get("sep", js("."))
        if not (isinstance(sepv, dict) and "b" in sepv):
            return False
        return bordered_key(bytes.fromhex(sepv["b"]), obj_keys_nested(x))
    if kind in ("ts_negative_epoch_seconds", "ts_zone_name"):
        if f.get("fn") != "format_timestamp" or not (isinstance(x, dict) and "ts" in x):
            return False
        fmt = bytes.fromhex(f["fmt"]["b"]).decode()
        if kind == "ts_negative_epoch_seconds":
            return "%s" in fmt and int(x["ts"]) < 0
        return "%Z" in fmt
    return False


def nontrivial(c):
    return c.get("g") is not None


MANIFEST = {
    "level": "proof",
    "technique": "Coq proofs (induction on digit strings, lists, nested values and permutations; linear integer arithmetic for "
                 "timestamps and the calendar) on hand models of the eight stdlib conversion pairs + differential "
                 "correspondence of every single call against the compiled VRL functions (arguments runtime-typed)",
    "text": "Closed, axiom-free Coq theorems, one family per pair, each over the pair's whole domain: format_int/parse_int for every "
            "base 2..36 and every i64, i64::MIN included (digit loop ends within its 64 rounds; default-base pair too; the former "
            "i64::MIN panic is repaired in 12bd79c and its witness proved to round-trip); ip_ntoa/ip_aton for "
            "every u32 and every dotted quad; ip_ntop/ip_pton for all 4- and 16-byte strings, through a model of std's IPv4/IPv6 "
            "Display and FromStr (RFC 5952 '::' compression, every zero-run shape, embedded IPv4) with parse(print a) = a for "
            "all 2^128 addresses; ip_to_ipv6/ipv6_to_ipv4 on all IPv4-mapped addresses, both compositions; "
            "to_entries/from_entries for every object; flatten/unflatten for every object whose keys are separator-safe and whose "
            "nested objects are non-empty (arrays are leaves; any separator; the property's plain wording is proved sufficient for "
            "one-character separators and refuted for self-overlapping ones: known finding); to/from_unix_timestamp in all four "
            "units over chrono's whole range (exact from integers; truncation to the unit from timestamps, exact on multiples); "
            "format/parse_timestamp on four full-precision layouts over chrono's whole range, resting on a proved inverse pair of "
            "calendar formulas (partial: chrono's strftime interpreter is modelled for these layouts only; %s and %Z formats "
            "fail on the implementation: known findings). Every model is tied to the code by running each call of ~4.6k (quick) "
            "generated cases through the real compiler/runtime and through the Gallina definitions (vm_compute); the round-trip "
            "law itself is also judged on the implementation's answers alone.",
    "note": "Trusted: Coq kernel + vm_compute; the hand-written models Model/{IntText,Ip,Entries,Flatten,UnixTs,TsText}.v, tied by "
            "correspondence only (core::net parser/printer, core int parsing, chrono's timestamp arithmetic and the parts of its "
            "formatter/parser used by the four layouts are modelled from their documented/observed behaviour; the Gregorian "
            "calendar by the civil-from-days formulas rather than chrono's tables); harness JSON codec; Python generator. Keys "
            "and separators are byte strings (valid UTF-8 in every generated case; from_utf8_lossy is the identity there). The "
            "harness is built with overflow checks on. Program timezone is UTC in every case. An empty separator is outside the flatten theorem and "
            "is never generated: unflatten with \"\" and two or more keys recurses forever (stack overflow). No axioms "
            "(Print Assumptions: closed for every theorem).",
    "design_ref": "DESIGN.md section 5 C25",
}


def main(run, args):
    import checklib
    n = 3000 if run.tier == "quick" else 60000
    if getattr(args, "cases", None):
        n = args.cases
    return checklib.standard(run, ID, THEOREMS, IMPORTS, "pairs", gen_cases, to_coq, n, nontrivial=nontrivial,
                             known_matcher=known_matcher, replay=args.replay)
