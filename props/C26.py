"""C26 — Protobuf encoding round-trips (encode_proto / parse_proto over the bundled descriptor sets)."""
import json
import os
import struct

import vlib
from vlib import coq_hex, coq_bool, coq_value, jb, js, ji, jf_bits, jo, ja

ID = "C26"
THEOREMS = [
    "C26_varint", "C26_varint_len", "C26_zigzag", "C26_fixed", "C26_tag", "C26_len_delim", "C26_records",
    "C26_scalar_wire", "C26_packed", "C26_wire_message", "C26_parse_canon", "C26_convert_shaped", "C26_message",
    "C26_nonvacuous",
]
IMPORTS_HEAD = ("From Coq Require Import String.\nFrom Coq Require Import List NArith ZArith.\n"
                "From VRL Require Import Base.Bytes Base.Value Base.Lit Model.Proto Model.ProtoGlue Corr.C26.\n"
                "Local Open Scope string_scope.\nImport ListNotations.\n")
MANIFEST = {
    "level": "proof",
    "technique": "Coq proofs (induction over varint groups, record lists and descriptor nesting depth) on hand models of the "
                 "protobuf wire format (prost / prost-reflect DynamicMessage) and of src/protobuf/{encode,parse}.rs + "
                 "differential correspondence (wire bytes and parsed values) vs encode_proto/parse_proto run through compiled "
                 "VRL programs on the bundled descriptor sets, whose abstract descriptors are dumped from prost-reflect at run time",
    "text": "Closed Coq theorems: varint (all n < 2^64, at most 10 bytes), zigzag, fixed32/64, keys, length-delimited payloads "
            "and whole record sequences are read back exactly; every scalar kind, packed and unpacked repeated fields, maps and "
            "embedded messages to any depth decode to the normal form of what was encoded (C26_wire_message, induction on the "
            "nesting depth); encode_message on any message-shaped value (scalars in range, exact f32 in float fields, UTF-8 "
            "strings, enums by canonical name, repeated, maps with canonical keys, nested) yields a well-typed dynamic message "
            "whose proto_to_value is the value minus the fields holding the proto3 default (C26_convert_shaped); together: "
            "parse_proto(encode_proto(v)) = strip_defaults(v) (C26_message) for every descriptor pool satisfying decidable "
            "structural conditions, which the check evaluates on the four bundled descriptor sets as prost-reflect dumps them at "
            "run time. The model is compared with the implementation on wire BYTES (maps with two or more entries: same length "
            "and same decoding, HashMap order being arbitrary) and on parsed values, for message-shaped values of every bundled "
            "message type (range edges, defaults, depth <= 3), for mis-shaped values (out-of-range integers, inexact floats, "
            "enums by number / other case, invalid UTF-8, unknown keys, nulls, non-canonical map keys, arrays and lone values in "
            "the wrong place, lossy string coercion on/off) and for hand-made wire data (unknown fields, every wire type, overlong "
            "and overflowing varints, truncated payloads); parse(encode(v)) = strip_defaults(v) is searched directly.",
    "note": "The wire layer is prost / prost-reflect library code modelled from the protobuf encoding spec and the crate sources "
            "(tied by the byte-level correspondence); groups, extensions, real oneofs and required fields are not modelled (none "
            "in the bundled descriptors; such message types would be skipped and logged). PUnmodelled conversions (Bytes parsed "
            "into bool/numeric fields, Float/Timestamp into string, Timestamp into google.protobuf.Timestamp) are outside "
            "`shaped` and are only compared for panics. The theorem's one non-structural premise is that every length prefix fits "
            "64 bits (lens_msg). -0.0 in a field without presence is dropped like 0.0 (prost-reflect compares with ==): VRL's own "
            "equality also identifies them, so strip_defaults drops both; map values exclude -0.0 in `shaped`. "
            "Found for C04: encode_proto/parse_proto panic at compile time on a missing descriptor file or message type. "
            "No axioms (Print Assumptions: closed).",
    "design_ref": "DESIGN.md section 5 C26",
}

DESC_FILES = [
    ("test/v1/test.desc", "test.v1.Integers"),
    ("test_protobuf/v1/test_protobuf.desc", "test_protobuf.v1.Person"),
    ("test_protobuf3/v1/test_protobuf3.desc", "test_protobuf3.v1.Person"),
    ("test_protobuf_maps/v1/test_protobuf_maps.desc", "test_protobuf_maps.v1.Maps"),
    # not shipped with /repo: kinds, labels and map shapes the bundled sets do not use (props/C26_extra/*.proto);
    # it ties the rest of the model (sint/fixed/sfixed, packed floats/bools/enums, unpacked scalars, integer map keys,
    # message map values, a recursive type, proto2 presence and packing) to the implementation
    (os.path.join(vlib.VERIF, "props", "C26_extra", "extra.desc"), "extra.v1.Tree"),
]

SCALAR_KINDS = {"int32": "KInt32", "int64": "KInt64", "uint32": "KUint32", "uint64": "KUint64", "sint32": "KSint32",
                "sint64": "KSint64", "fixed32": "KFixed32", "fixed64": "KFixed64", "sfixed32": "KSfixed32",
                "sfixed64": "KSfixed64", "double": "KDouble", "float": "KFloat", "bool": "KBool", "string": "KString",
                "bytes": "KBytes"}

_POOLS = None          # list of {"file", "messages": [...], "index": {full name: i}, "unsupported": set of message names}


def pools():
    """The bundled descriptor sets as prost-reflect reads them (through the harness)."""
    global _POOLS
    if _POOLS is None:
        vlib.build_harness("proto")
        outs = vlib.run_harness("proto", [{"op": "desc", "file": f, "type": t} for f, t in DESC_FILES])
        _POOLS = []
        for (f, t), o in zip(DESC_FILES, outs):
            if "messages" not in o:
                raise SystemExit("INFRASTRUCTURE: cannot dump descriptor %s: %r" % (f, o))
            msgs = o["messages"]
            index = {m["name"]: i for i, m in enumerate(msgs)}
            unsupported = set()
            for m in msgs:
                oneofs = {}
                for fl in m["fields"]:
                    if fl["oneof"] is not None:
                        oneofs.setdefault(fl["oneof"], []).append(fl["name"])
                    if fl["kind"] == "group" or fl["card"] == "required":
                        unsupported.add(m["name"])
                if any(len(v) > 1 for v in oneofs.values()):      # a real oneof (proto3 optional = one member)
                    unsupported.add(m["name"])
            _POOLS.append({"file": f, "messages": msgs, "index": index, "unsupported": unsupported})
    return _POOLS


def coq_str(s):
    return coq_hex(s.encode("utf-8").hex())


def coq_kind(p, fl):
    if fl["kind"] == "enum":
        return "(KEnum [%s] (%d)%%Z)" % ("; ".join("(%s, (%d)%%Z)" % (coq_str(n), z) for n, z in fl["enum"]), fl["enum_default"])
    if fl["kind"] == "message":
        return "(KMsg %d)" % p["index"][fl["msg"]]
    return SCALAR_KINDS[fl["kind"]]


def coq_field(p, fl):
    if fl["is_map"]:
        entry = p["messages"][p["index"][fl["msg"]]]
        kf = next(x for x in entry["fields"] if x["num"] == 1)
        vf = next(x for x in entry["fields"] if x["num"] == 2)
        kind = coq_kind(p, vf)
        card = "(CMap %s %s %s)" % (coq_kind(p, kf), coq_bool(kf["presence"]), coq_bool(vf["presence"]))
    elif fl["is_list"]:
        kind = coq_kind(p, fl)
        card = "(CRepeated %s)" % coq_bool(fl["packed"])
    else:
        kind = coq_kind(p, fl)
        card = "(CSingular %s)" % coq_bool(fl["presence"])
    return "mkField %s %d %s %s" % (coq_str(fl["name"]), fl["num"], kind, card)


def coq_pools():
    out = []
    for i, p in enumerate(pools()):
        msgs = ";\n  ".join("[%s]" % "; ".join(coq_field(p, fl) for fl in sorted(m["fields"], key=lambda x: x["num"]))
                            for m in p["messages"])
        out.append("Definition pool_%d : pool := [\n  %s\n]." % (i, msgs))
    return "\n".join(out) + "\n"


def imports():
    return IMPORTS_HEAD + coq_pools()


# ------------------------------------------------------------------------------------------------
# generator
# ------------------------------------------------------------------------------------------------
I32 = [0, 1, -1, 127, 128, 300, 2**31 - 1, -2**31, 2**31 - 2, -2**31 + 1, 16383, 16384]
I64 = I32 + [2**31, -2**31 - 1, 2**63 - 1, -2**63, 2**53, 2**62, -2**62, 2**32, 2**56 - 1, 2**56]
U32 = [0, 1, 127, 128, 300, 2**31, 2**32 - 1, 2**32 - 2, 2**28, 2**28 - 1]
F64_BITS = [0x0000000000000000, 0x8000000000000000, 0x3ff0000000000000, 0xbff8000000000000, 0x7ff0000000000000,
            0xfff0000000000000, 0x0000000000000001, 0x7fefffffffffffff, 0x3fb999999999999a, 0x4340000000000001,
            0x47efffffe0000000, 0x36a0000000000000, 0x3810000000000000, 0x380fffffc0000000]
STRS = ["", "a", "hello", "é", "日本語", "a\x00b", "\U0001f600", "x" * 130, " ", "true", "0"]


def f32_exact_bits(rng):
    """bits of an f64 that is exactly an f32"""
    r = rng.random()
    if r < 0.3:
        b32 = rng.choice([0x00000000, 0x80000000, 0x3f800000, 0x7f7fffff, 0x00000001, 0x00800000, 0x7f800000, 0xff800000,
                          0x3dcccccd, 0xc0490fdb, 0x007fffff])
    else:
        b32 = rng.getrandbits(32)
        if (b32 >> 23) & 0xff == 0xff and b32 & 0x7fffff:
            b32 &= 0xff800000           # no NaN
    x = struct.unpack("<f", struct.pack("<I", b32))[0]
    return struct.unpack("<Q", struct.pack("<d", x))[0]


def rand_f64_bits(rng):
    while True:
        b = rng.choice(F64_BITS) if rng.random() < 0.5 else rng.getrandbits(64)
        if (b >> 52) & 0x7ff == 0x7ff and b & (2**52 - 1):
            continue
        return b


def rand_text(rng):
    if rng.random() < 0.6:
        return rng.choice(STRS)
    return "".join(rng.choice("abcXYZ 09_-.é日\U0001f600\n\"") for _ in range(rng.randrange(0, 12)))


def shaped_scalar(rng, p, fl, depth, want_default=False):
    k = fl["kind"]
    if k == "bool":
        return False if want_default else rng.random() < 0.6
    if k in ("int32", "sint32", "sfixed32"):
        return ji(0 if want_default else rng.choice(I32) if rng.random() < 0.7 else rng.randrange(-2**31, 2**31))
    if k in ("int64", "sint64", "sfixed64"):
        return ji(0 if want_default else rng.choice(I64) if rng.random() < 0.7 else rng.randrange(-2**63, 2**63))
    if k in ("uint32", "fixed32"):
        return ji(0 if want_default else rng.choice(U32) if rng.random() < 0.7 else rng.randrange(0, 2**32))
    if k in ("uint64", "fixed64"):
        return ji(0 if want_default else rng.choice([x for x in I64 if x >= 0]) if rng.random() < 0.7 else rng.randrange(0, 2**63))
    if k == "double":
        return jf_bits(rng.choice([0, 1 << 63]) if want_default else rand_f64_bits(rng))
    if k == "float":
        return jf_bits(rng.choice([0, 1 << 63]) if want_default else f32_exact_bits(rng))
    if k == "string":
        return js("" if want_default else rand_text(rng))
    if k == "bytes":
        return jb(b"" if want_default else bytes(rng.getrandbits(8) for _ in range(rng.randrange(0, 10))))
    if k == "enum":
        names = [n for n, _ in fl["enum"]]
        return js(names[0] if want_default else rng.choice(names))
    if k == "message":
        return shaped_msg(rng, p, p["messages"][p["index"][fl["msg"]]], depth + 1)
    raise ValueError(k)


def map_key(rng, kf):
    k = kf["kind"]
    if k == "string":
        return rand_text(rng)
    if k == "bool":
        return rng.choice(["true", "false"])
    v = shaped_scalar(rng, None, kf, 9)
    return v["i"]


def shaped_msg(rng, p, m, depth=0):
    kvs = []
    for fl in m["fields"]:
        r = rng.random()
        if r < 0.25:
            continue
        deep = fl["kind"] == "message" and (not fl["is_map"] or
                                            next(x for x in p["messages"][p["index"][fl["msg"]]]["fields"]
                                                 if x["num"] == 2)["kind"] == "message")
        if deep and (depth >= 4 or (depth >= 2 and r < 0.85)):
            continue
        want_default = r < 0.45
        if fl["is_map"]:
            entry = p["messages"][p["index"][fl["msg"]]]
            kf = next(x for x in entry["fields"] if x["num"] == 1)
            vf = next(x for x in entry["fields"] if x["num"] == 2)
            n = 0 if want_default else rng.choice([1, 1, 2, 3])
            ent = {}
            for _ in range(n):
                x = shaped_scalar(rng, p, vf, depth, want_default=rng.random() < 0.3)
                if isinstance(x, dict) and x.get("f") == "8000000000000000" and not vf["presence"]:
                    x = jf_bits(0)         # -0.0 in a map value without presence comes back as 0.0: not message-shaped
                ent[map_key(rng, kf)] = x
            kvs.append((fl["name"], jo(ent)))
        elif fl["is_list"]:
            n = 0 if want_default else rng.choice([1, 1, 2, 3, 5])
            kvs.append((fl["name"], ja([shaped_scalar(rng, p, fl, depth, want_default=rng.random() < 0.3) for _ in range(n)])))
        else:
            kvs.append((fl["name"], shaped_scalar(rng, p, fl, depth, want_default=want_default)))
    return jo(kvs)


def has_multi_map(v):
    """a map with two or more entries somewhere (any object with >= 2 entries is a candidate: over-approximation is
    harmless, it only permits the order-insensitive comparison)"""
    if isinstance(v, dict):
        if "o" in v:
            return any(has_multi_map(x) for _, x in v["o"]) or False
        if "a" in v:
            return any(has_multi_map(x) for x in v["a"])
    return False


def multi_map(p, m, v):
    if not (isinstance(v, dict) and "o" in v):
        return False
    byname = {fl["name"]: fl for fl in m["fields"]}
    for k, x in v["o"]:
        fl = byname.get(bytes.fromhex(k).decode("utf-8", "replace"))
        if fl is None or not isinstance(x, dict):
            continue
        if fl["is_map"]:
            if "o" in x and len(x["o"]) >= 2:
                return True
            vf = next(y for y in p["messages"][p["index"][fl["msg"]]]["fields"] if y["num"] == 2)
            if vf["kind"] == "message" and "o" in x:
                sub = p["messages"][p["index"][vf["msg"]]]
                if any(multi_map(p, sub, e) for _, e in x["o"]):
                    return True
        elif fl["kind"] == "message":
            sub = p["messages"][p["index"][fl["msg"]]]
            if fl["is_list"] and "a" in x:
                if any(multi_map(p, sub, e) for e in x["a"]):
                    return True
            elif multi_map(p, sub, x):          # a singular message, or a lone object given for a repeated field
                return True
    return False


MISFIT = [ji(2**31), ji(-2**31 - 1), ji(2**32), ji(-1), ji(2**63 - 1), ji(-2**63), jf_bits(0x3fb999999999999a),
          jf_bits(0x7e37e43c8800759c), jf_bits(0x3ff0000000000000), True, False, None, js("x"), js("1"), js("true"),
          jb(b"\xff\xfe"), jb(b"\xc3"), ja([]), ja([ji(1)]), ja([js("a"), ji(2)]), jo({}), jo({"a": ji(1)}),
          {"ts": "1500000000123456789"}, {"ts": "-1"}, {"r": "612b"}, js("fruit_tomato"), js("PHONE_TYPE_home"), ji(7), ji(1),
          jo({"01": js("a"), "1": js("b")}), jo({"+1": js("a")}), jo({"TRUE": js("a")}), jo({"-0": js("z")}),
          jo({"18446744073709551615": js("m")}), jo({"18446744073709551616": js("m")}), jo({"": ji(0)})]


def misshape(rng, p, m, v):
    """a message-shaped value with one or two entries replaced / added so that it is (usually) no longer shaped"""
    kvs = dict((bytes.fromhex(k).decode(), x) for k, x in v["o"])
    for _ in range(rng.choice([1, 1, 2])):
        r = rng.random()
        if r < 0.75 and m["fields"]:
            fl = rng.choice(m["fields"])
            kvs[fl["name"]] = rng.choice(MISFIT)
        elif r < 0.9:
            kvs[rng.choice(["zzz", "unknown", "Name", ""])] = rng.choice(MISFIT)
        elif m["fields"]:
            fl = rng.choice(m["fields"])
            if fl["is_list"] and not fl["is_map"]:
                kvs[fl["name"]] = shaped_scalar(rng, p, fl, 2)           # a lone value for a repeated field
            else:
                kvs[fl["name"]] = ja([shaped_scalar(rng, p, fl, 2)]) if not fl["is_map"] else ja([jo({})])
    return jo(kvs)


def varint(n):
    out = bytearray()
    while True:
        if n < 128:
            out.append(n)
            return bytes(out)
        out.append((n & 0x7f) | 0x80)
        n >>= 7


def rand_wire(rng, m):
    """hand-made wire data: known and unknown field numbers, every wire type, overlong / overflowing varints,
    truncated payloads"""
    out = bytearray()
    for _ in range(rng.randrange(0, 5)):
        nums = [fl["num"] for fl in m["fields"]] or [1]
        num = rng.choice(nums) if rng.random() < 0.8 else rng.choice([0, 15, 16, 2047, 2**29 - 1, 2**29])
        wt = rng.choice([0, 0, 1, 2, 2, 2, 5, 3, 4, 6, 7]) if rng.random() < 0.5 else rng.choice([0, 2])
        out += varint(num << 3 | wt)
        if wt == 0:
            out += rng.choice([varint(rng.choice(I64) % 2**64), b"\x80\x00", b"\xff" * 9 + b"\x01", b"\xff" * 9 + b"\x02",
                               b"\xff" * 10, b"\x80", varint(rng.getrandbits(rng.randrange(1, 65)))])
        elif wt == 1:
            out += bytes(rng.getrandbits(8) for _ in range(rng.choice([8, 8, 8, 7])))
        elif wt == 5:
            out += bytes(rng.getrandbits(8) for _ in range(rng.choice([4, 4, 4, 3])))
        elif wt == 2:
            payload = rng.choice([b"", b"a", "é".encode(), b"\xff", b"\x08\x01", b"\x0a\x01a\x10\x02", varint(300) + varint(1),
                                  bytes(rng.getrandbits(8) for _ in range(rng.randrange(0, 9)))])
            ln = len(payload) if rng.random() < 0.85 else len(payload) + rng.choice([1, 200])
            out += varint(ln) + payload
    return bytes(out)


def targets():
    res = []
    for pi, p in enumerate(pools()):
        for mi, m in enumerate(p["messages"]):
            if m["map_entry"] or m["name"] in p["unsupported"]:
                continue
            res.append((pi, mi, p, m))
    return res


def vsig(v):
    import hashlib
    return hashlib.sha1(json.dumps(v, sort_keys=True).encode()).hexdigest()[:12]


def rt_case(pi, mi, p, m, v, lossy=None, shaped=False):
    c = {"op": "rt", "file": p["file"], "type": m["name"], "v": v, "pool": pi, "ty": mi, "unordered": multi_map(p, m, v),
         "shaped": shaped}
    if shaped:
        c["vsig"] = vsig(v)        # the flag is about exactly this value (a shrunk case must not inherit it)
    if lossy is not None:
        c["lossy"] = lossy
    return c


def gen_cases(run, n):
    rng = run.rng
    cases = [{"op": "desc", "file": p["file"], "type": t, "pool": pi}
             for pi, (p, (_, t)) in enumerate(zip(pools(), DESC_FILES))]
    ts = targets()
    per = max(4, n * 6 // (10 * len(ts)))
    enc_inputs = []
    for pi, mi, p, m in ts:                       # message-shaped values for every message type
        cases.append(rt_case(pi, mi, p, m, jo({}), shaped=True))
        for _ in range(per):
            v = shaped_msg(rng, p, m)
            cases.append(rt_case(pi, mi, p, m, v, shaped=True))
            enc_inputs.append((pi, mi, p, m, v))
    for _ in range(n * 25 // 100):                # values that are not message-shaped
        pi, mi, p, m = rng.choice(ts)
        v = misshape(rng, p, m, shaped_msg(rng, p, m))
        cases.append(rt_case(pi, mi, p, m, v, lossy=rng.choice([None, None, True, False])))
    for _ in range(n * 3 // 100):
        pi, mi, p, m = rng.choice(ts)
        cases.append(rt_case(pi, mi, p, m, rng.choice([ji(1), js("x"), None, ja([]), True])))
    for _ in range(n * 12 // 100):                # parse_proto alone on hand-made wire data
        pi, mi, p, m = rng.choice(ts)
        cases.append({"op": "dec", "file": p["file"], "type": m["name"], "b": rand_wire(rng, m).hex(), "pool": pi, "ty": mi})
    return cases


# ------------------------------------------------------------------------------------------------
# rendering
# ------------------------------------------------------------------------------------------------
def coq_ires(r):
    if r is None:
        return "IErr"
    if "ok" in r:
        return "(IOk %s)" % coq_hex(r["ok"])
    if "panic" in r:
        return "IPanic"
    return "IErr"


def coq_vres(r):
    if r is None:
        return "VNone"
    if "ok" in r:
        return "(VOk %s)" % coq_value(r["ok"])
    if "panic" in r:
        return "VPanic"
    return "VErr"


def to_coq(c, o):
    if c["op"] == "desc":
        if [m["name"] for m in o.get("messages", [])] != [m["name"] for m in pools()[c["pool"]]["messages"]]:
            raise ValueError("descriptor dump changed during the run")
        return "CPool pool_%d" % c["pool"]
    pi = [f for f, _ in DESC_FILES].index(c["file"])          # by name, so corpus files survive descriptor changes
    ty = pools()[pi]["index"][c["type"]]
    if c["op"] == "rt":
        lossy = c.get("lossy")
        return "CRt pool_%d %d %s %s %s %s %s %s" % (pi, ty, coq_bool(True if lossy is None else lossy),
                                                    coq_bool(c.get("unordered", False)),
                                                    coq_bool(bool(c.get("shaped")) and c.get("vsig") == vsig(c["v"])),
                                                    coq_value(c["v"]), coq_ires(o["enc"]), coq_vres(o["dec"]))
    if c["op"] == "dec":
        return "CDec pool_%d %d %s %s" % (pi, ty, coq_hex(c["b"]), coq_vres(o["dec"]))
    raise ValueError(c["op"])


def known_matcher(entry, c, o):
    return False


def nontrivial(c):
    if c["op"] == "desc":
        return True
    if c["op"] == "rt":
        return isinstance(c["v"], dict) and len(c["v"].get("o", [])) >= 1
    return len(c["b"]) >= 2


def main(run, args):
    import checklib
    n = 1500 if run.tier == "quick" else 40000
    if args.cases:
        n = args.cases
    return checklib.standard(run, ID, THEOREMS, imports(), "proto", gen_cases, to_coq, n, nontrivial=nontrivial,
                             replay=args.replay, known_matcher=known_matcher)
