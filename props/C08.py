"""C08 — error coalescing and infallible assignment follow their definitions."""
import corevrl as cv
from corevrl import lit, ev_field, set_field, mark, f
from vlib import ji, js, jo, ja

ID = "C08"
THEOREMS = ["C08_coalesce", "C08_coalesce_success", "C08_coalesce_failure", "C08_assign_infallible", "C08_example"]
MANIFEST = {
    "level": "proof",
    "technique": "Coq equations on a hand model of Op::resolve (Err) and Variant::Infallible + differential correspondence on compiled VRL programs + Rust-side kind membership of the stored default",
    "text": "Closed Coq theorems (all function/operator semantics): a ?? b is a's value in a's final state when a succeeds "
            "(b not evaluated), b evaluated from a's final state when a fails, control outcomes pass; ok, err = e stores "
            "(value, null) or (default, message) in that order and evaluates to the value or the message. Correspondence "
            "compares compiled programs with the model; the oracle checks side-effect markers, the stored values and that "
            "the stored default belongs to ok's type.",
    "note": "Trusted: Coq kernel + vm_compute; hand model Model/Eval.v (tie = correspondence); error message texts are "
            "abstracted to an opaque token in the model (any string matches). 'default belongs to ok's reported type' is "
            "checked on the implementation only (partial: no Gallina model of DefaultValue/TypeDef here). No axioms.",
    "design_ref": "DESIGN.md section 5 C08",
}
FNS = {"parse_url": (jo([]), lambda v: False), "parse_json": (None, lambda v: False),
       "int": (ji(0), lambda v: isinstance(v, dict) and "i" in v), "string": (js(""), lambda v: isinstance(v, dict) and "b" in v),
       "bool": (False, lambda v: isinstance(v, bool)), "array": (ja([]), lambda v: isinstance(v, dict) and "a" in v),
       "object": (jo([]), lambda v: isinstance(v, dict) and "o" in v)}
POOL = [ji(5), ji(-3), js("s"), js(""), True, False, None, ja([ji(1)]), jo([("p", ji(1))])]
TARGETS = [("tvar", "okv", []), ("text", "event", [f("okf")]), ("text", "meta", [f("okm")]), ("tvar", "okv", [f("p")]), ("noop",)]
ETARGETS = [("tvar", "errv", []), ("text", "event", [f("errf")]), ("text", "meta", [f("errm")]), ("noop",)]


def gen_targeted(run, n):
    rng = run.rng
    cases = []
    for _ in range(n):
        fn = rng.choice(list(FNS))
        x = rng.choice(POOL)
        succeeds = FNS[fn][1](x)
        a = ("call", fn, False, [ev_field("x")])
        if rng.random() < 0.3:
            a = ("block", [mark("a_ran"), a])
        dv = rng.choice(POOL[:5])
        if rng.random() < 0.5:
            b = ("block", [mark("b_ran"), lit(dv)])
            prog = [("assign", ("tvar", "r", []), ("op", "err", a, b)), mark("after"), ("var", "r")]
            exp = {"what": "coalesce", "succeeds": succeeds, "x": x, "b": dv}
        else:
            ok, er = rng.choice(TARGETS), rng.choice(ETARGETS)
            # a variable's reported type is not reachable through the public API: copy it into the event, whose
            # reported final kind is
            copy = [set_field("okcopy", ("var", "okv"))] if ok[0] == "tvar" and not ok[2] else []
            prog = [("assign", ("tvar", "r", []), ("assigninf", ok, er, a, FNS[fn][0]))] + copy + [mark("after"), ("var", "r")]
            exp = {"what": "assigninf", "succeeds": succeeds, "x": x, "ok": ok, "err": er, "default": FNS[fn][0]}
        cases.append({"kind": "targeted", "ast": prog, "event": jo([("x", x)]), "meta": jo([]), "vars": ["r", "okv", "errv"],
                      "expect": exp, "meta_info": {"ctx": [exp["what"] + (":ok" if succeeds else ":err")]}})
    return cases


def read_target(t, out):
    if t[0] == "noop":
        return "skip"
    if t[0] == "tvar":
        v = out["vars"].get(t[1])
        if v == "none":
            return "unset"
        v = v["some"]
        for s in t[2]:
            v = dict((bytes.fromhex(k).decode(), x) for k, x in v.get("o", []))[bytes.fromhex(s["f"]).decode()]
        return v
    src = out["event"] if t[1] == "event" else out["meta"]
    for k, v in src.get("o", []):
        if k == t[2][0]["f"]:
            return v
    return "absent"


def oracle(case, out):
    exp = case["expect"]
    res = out["result"]
    if "ok" not in res:
        return "program failed: %r" % (res,)
    r = res["ok"]
    if not cv.event_has(out, "after"):
        return "program did not continue"
    if exp["what"] == "coalesce":
        if exp["succeeds"]:
            if r != exp["x"]:
                return "a ?? b with a succeeding must yield a's value %r, got %r" % (exp["x"], r)
            if cv.event_has(out, "b_ran"):
                return "b was evaluated although a succeeded"
        else:
            if r != exp["b"]:
                return "a ?? b with a failing must yield b's value %r, got %r" % (exp["b"], r)
            if not cv.event_has(out, "b_ran"):
                return "b was not evaluated although a failed"
        return None
    tk = out.get("type_ok", {})
    if tk.get("event") is False or tk.get("meta") is False:
        return ("after `ok, err = e` the final event/metadata (holding ok's stored value) is not a member of the kind the compiler "
                "reports for it: %s" % tk.get("event_kind"))
    okv, errv = read_target(exp["ok"], out), read_target(exp["err"], out)
    if exp["succeeds"]:
        if r != exp["x"]:
            return "ok, err = e must evaluate to e's value"
        if okv not in ("skip",) and okv != exp["x"]:
            return "ok must hold e's value %r, holds %r" % (exp["x"], okv)
        if errv not in ("skip",) and errv is not None:
            return "err must be null after success, holds %r" % (errv,)
    else:
        if not (isinstance(r, dict) and "b" in r):
            return "ok, err = e must evaluate to the error message string on failure, got %r" % (r,)
        if okv not in ("skip",) and okv != exp["default"]:
            return "ok must hold the default %r of its type, holds %r" % (exp["default"], okv)
        if errv not in ("skip",) and errv != r:
            return "err must hold the error message %r, holds %r" % (r, errv)
    return None


def main(run, args):
    return cv.standard_main(run, ID, THEOREMS, MANIFEST, gen_targeted, oracle, args)
