"""C28 — String and collection functions obey their algebraic laws."""
import unicodedata

import vlib
from vlib import coq_value, coq_bool, coq_z, js, jb, ji, jf_bits, jo, ja
import gen

ID = "C28"
THEOREMS = [
    "C28_upcase_idem_any_table",
    "C28_upcase_idem",
    "C28_downcase_idem_any_table",
    "C28_downcase_idem",
    "C28_snake_kebab_screaming_idem_ascii",
    "C28_casing_words_ok",
    "C28_camel_pascal_idem_refuted",
    "C28_is_ws_spec",
    "C28_strip_ws_spec",
    "C28_strip_ws_idem",
    "C28_join_split",
    "C28_join_split_valid",
    "C28_fn_join_split",
    "C28_split_pieces_valid",
    "C28_starts_with_spec",
    "C28_ends_with_spec",
    "C28_contains_spec",
    "C28_find_first",
    "C28_ci_spec",
    "C28_ci_final_sigma_refuted",
    "C28_starts_with_ci_refuted",
    "C28_starts_with_ci_spec",
    "C28_starts_with_cs_implies_ci",
    "C28_chars_iterator_valid",
    "C28_truncate_len",
    "C28_truncate_spec",
    "C28_strlen_utf8",
    "C28_slice_spec",
    "C28_chunks_spec",
    "C28_unique_nodup",
    "C28_unique_same_elements",
    "C28_unique_first_occurrence",
    "C28_unique_idem",
    "C28_veq_equiv",
    "C28_compact_spec",
    "C28_compact_clean",
    "C28_compact_idem",
    "C28_keys_values_length",
    "C28_merge_right_bias",
    "C28_merge_shallow",
    "C28_push_append",
    "C28_flatten",
    "C28_nonvacuous",
]
IMPORTS = ("From Coq Require Import List NArith ZArith String.\n"
           "From VRL Require Import Base.Bytes Base.Value Base.Lit Model.CodecUtf8 Model.StrFns Model.CollFns Model.Casing Corr.C28.\n"
           "Local Open Scope string_scope.")
MANIFEST = {
    "level": "proof",
    "technique": "Coq proofs (induction over byte/code-point lists and nested values; finite tables lifted by "
                 "vm_compute sweeps) on hand models of the stdlib functions + differential correspondence vs the "
                 "functions run through compiled VRL programs + exhaustive code-point sweeps of the implementation",
    "text": "Closed Coq theorems on hand models of the stdlib functions, every one quantified over all inputs: upcase and "
            "downcase (final-sigma rule included) are idempotent for EVERY per-code-point mapping whose outputs are fixed "
            "points (and for the modelled Unicode table); strip_whitespace removes exactly a maximal whitespace prefix and "
            "suffix (the 25 White_Space code points); join(split(s, d, limit), d) == s for every string pattern incl. the "
            "empty one and every limit >= 1; starts_with/ends_with/contains <-> existence of the decomposition (and the "
            "search finds the first position); truncate never exceeds limit + chars(suffix) and returns short strings "
            "unchanged; strlen(utf8(cps)) = |cps|; slice = positional indexing with negative indices and clamping, errors "
            "exactly outside; unique: no duplicates under Value's ==, same elements, first occurrences in order, idempotent; "
            "compact = filter of the configured empties after recursive compaction, result clean at every depth, idempotent; "
            "keys/values/length agree; merge is right-biased (deep: recursively on object/object); push/append/flatten/chunks. "
            "The models are tied to the code by running every function through compiled VRL programs on generated inputs "
            "(Unicode pool with length-changing case pairs, all whitespace, invalid UTF-8, nested values with empties x all "
            "option combinations) and comparing with the Gallina definitions; every law is also evaluated directly on the "
            "implementation's outputs; the hypotheses about the Unicode tables are checked on the implementation by "
            "exhaustive sweeps over all 1,112,064 scalar values on every run.",
    "note": "Unicode tables: char::is_whitespace is modelled completely (sweep over all code points compares the sets); the "
            "case mapping tables (Model/CaseTables.v, generated from the implementation) cover U+0000-1FFF, 2100-21FF, "
            "2C60-2C7F, A640-A69F, A720-A7FF, FB00-FB17, FF21-FF5A, every entry re-checked against the implementation on every "
            "run; outside that domain the correspondence is silent and the *_any_table theorems + the exhaustive sweep carry "
            "the claim. The casing functions (convert_case crate) are modelled on printable ASCII only "
            "(Model/Casing.v: snake/kebab/screaming idempotent there, camel/pascal refuted); on other input, and for regex "
            "split patterns, the laws are only searched on the implementation (level of that part: test). merge_right_bias assumes unique keys in `from` "
            "(a BTreeMap). Known findings (genuine defects, see known_findings/C28.json): case-insensitive starts_with "
            "zips chars (\"K\" U+212A starts with \"kk\"); case-insensitive ends_with/contains miss "
            "matches because of the final-sigma rule; camelcase/pascalcase (and on titlecase/multi-char-uppercase letters all "
            "casing functions) are not idempotent. Fixed in /repo and followed here: starts_with(case_sensitive: false) on invalid "
            "UTF-8 (d3a86c2, now modelled: Chars items Ok char | Err byte) and snakecase!(non-string) (dd81ffa). No axioms (Print Assumptions: closed).",
    "design_ref": "DESIGN.md section 5 C28",
}

OPS = {"upcase": "OUpcase", "downcase": "ODowncase", "casing": "OCasing", "strip": "OStrip", "split": "OSplit",
       "join": "OJoin", "starts_with": "OStartsWith", "ends_with": "OEndsWith", "contains": "OContains",
       "truncate": "OTruncate", "strlen": "OStrlen", "slice": "OSlice", "unique": "OUnique", "compact": "OCompact",
       "kvl": "OKvl", "length": "OLength", "merge": "OMerge", "push": "OPush", "append": "OAppend",
       "flatten": "OFlatten", "chunks": "OChunks"}

# the modelled domain of the case tables (Model/CaseTables.v `case_domain`), half-open
CASE_DOMAIN = [(0, 0x2000), (0x2100, 0x2200), (0x2C60, 0x2C80), (0xA640, 0xA6A0), (0xA720, 0xA800),
               (0xFB00, 0xFB18), (0xFF21, 0xFF5B)]
WS = [9, 10, 11, 12, 13, 32, 133, 160, 5760] + list(range(8192, 8203)) + [8232, 8233, 8239, 8287, 12288]

# ------------------------------------------------------------------------------------------------
# string pools
# ------------------------------------------------------------------------------------------------
ASCII = list("abcABCxyzXYZ019_-. ,;:/aaab")
SPECIAL = ["ß", "İ", "ı", "ǅ", "Ǆ", "ǆ", "ﬁ", "Σ", "σ", "ς",
           "Α", "α", "ŉ", "ẞ", "K", "Å", "Ω", "é", "É", "ſ",
           "Ⱥ", "ⱥ", "ᾈ", "́", "̇", "ͅ", "·", "Ж", "ж", "å",
           "ω", "k", "K", "i", "I", "s", "S"]
OUTSIDE = ["日", "本", "\U0001f600", "\U00010400", "\U00010428", "�", " "]
WS_CH = [chr(c) for c in WS]


def rand_chars(rng, n, outside=0.08, ws=0.1):
    out = []
    for _ in range(n):
        r = rng.random()
        if r < ws:
            out.append(rng.choice(WS_CH))
        elif r < ws + outside:
            out.append(rng.choice(OUTSIDE))
        elif r < 0.55:
            out.append(rng.choice(ASCII))
        else:
            out.append(rng.choice(SPECIAL))
    return "".join(out)


def rand_text(rng, outside=0.08, ws=0.1):
    r = rng.random()
    if r < 0.06:
        return ""
    if r < 0.16:
        return rand_chars(rng, 1, outside, ws)
    if r < 0.22:
        return rng.choice(["ab", "a", "ß", "Σ", " "]) * rng.randint(2, 24)
    return rand_chars(rng, rng.randint(2, 9), outside, ws)


def rand_bytes_val(rng, outside=0.08, ws=0.1, invalid=0.04):
    """A VRL bytes value: mostly valid UTF-8 text, sometimes with an invalid byte spliced in."""
    b = rand_text(rng, outside, ws).encode("utf-8")
    if rng.random() < invalid:
        i = rng.randint(0, len(b))
        bad = rng.choice([b"\xff", b"\xc3", b"\x80", b"\xe2\x82", b"\xf0\x9f", b"\xed\xa0\x80", b"\xc0\xaf"])
        b = b[:i] + bad + b[i:]
    return jb(b)


def wrong_type(rng):
    return rng.choice([None, True, ji(3), jf_bits(0x3ff8000000000000), ja([]), jo([]), {"ts": "0"}])


SIGMA_POOL = ["Σ", "Σ", "Α", "α", ".", " ", "́", "ͅ", "a", ":", "·", "'", "1", "σ"]


def sigma_text(rng):
    return "".join(rng.choice(SIGMA_POOL) for _ in range(rng.randint(1, 6)))


def casing_text(rng):
    parts = []
    for _ in range(rng.randint(0, 5)):
        r = rng.random()
        if r < 0.3:
            parts.append(rng.choice(["foo", "Bar", "BAZ", "xML", "HTTPRequest", "v2", "2b", "A1b", "aB", "ABc", "été",
                                     "ÉT", "ß", "ǅa", "İx", "ΣΑΣ", "i̇", "x1Y2"]))
        elif r < 0.5:
            parts.append(rng.choice(["_", "-", " ", "__", "- ", ".", "/"]))
        else:
            parts.append("".join(rng.choice("abABzZ01_- ") for _ in range(rng.randint(1, 4))))
    return "".join(parts)


# ------------------------------------------------------------------------------------------------
# values
# ------------------------------------------------------------------------------------------------
EMPTYISH = [None, js(""), js(" "), js("-"), js("\t\n"), js(" "), ja([]), jo([]), js("a"), ji(0), False,
            js(" - "), ja([None]), jo([("a", None)]), ja([ja([])]), jo([("k", jo([]))]), js(" "), js("--")]


def rand_nested(rng, depth=3):
    r = rng.random()
    if depth <= 0 or r < 0.4:
        return rng.choice(EMPTYISH) if rng.random() < 0.75 else gen.rand_scalar(rng)
    if r < 0.7:
        return ja([rand_nested(rng, depth - 1) for _ in range(rng.randint(0, 4))])
    ks = [k for k in ["a", "b", "c d", "", "k"] if rng.random() < 0.5]
    return jo([(k, rand_nested(rng, depth - 1)) for k in ks])


UNIQ_POOL = [ji(0), ji(1), jf_bits(0), jf_bits(0x8000000000000000), jf_bits(0x3ff0000000000000), js(""), js("a"),
             js("A"), None, True, False, ja([]), ja([ji(1)]), ja([jf_bits(0)]), ja([jf_bits(0x8000000000000000)]),
             jo([]), jo([("a", ji(1))]), jo([("a", jf_bits(0))]), jo([("a", jf_bits(0x8000000000000000))]),
             {"ts": "0"}, {"ts": "1"}, {"r": "612b"}, {"r": "5e7824"}, jb(b"\xff"), js("�")]


def rand_obj(rng, depth=2, keys=("a", "b", "c", "k", "", "é")):
    ks = [k for k in keys if rng.random() < 0.55]
    out = []
    for k in ks:
        r = rng.random()
        if depth > 0 and r < 0.45:
            out.append((k, rand_obj(rng, depth - 1, keys)))
        elif r < 0.6:
            out.append((k, ja([gen.rand_scalar(rng) for _ in range(rng.randint(0, 2))])))
        else:
            out.append((k, gen.rand_scalar(rng)))
    return jo(out)


def rand_index(rng, n):
    r = rng.random()
    if r < 0.8:
        return rng.randint(-n - 2, n + 2)
    if r < 0.9:
        return rng.choice([gen.I64_MAX, gen.I64_MIN, gen.I64_MIN + 1, 2 ** 32, -2 ** 32])
    return rng.randint(-3, 3)


# ------------------------------------------------------------------------------------------------
# case generators, one per op
# ------------------------------------------------------------------------------------------------
def mk(op, *args):
    return {"op": op, "args": list(args)}


def g_upcase(rng):
    if rng.random() < 0.03:
        return mk("upcase", wrong_type(rng))
    return mk("upcase", rand_bytes_val(rng))


def g_downcase(rng):
    if rng.random() < 0.03:
        return mk("downcase", wrong_type(rng))
    if rng.random() < 0.45:
        return mk("downcase", js(sigma_text(rng)))
    return mk("downcase", rand_bytes_val(rng))


def g_casing(rng):
    if rng.random() < 0.03:
        return mk("casing", wrong_type(rng))
    return mk("casing", js(casing_text(rng)) if rng.random() < 0.8 else rand_bytes_val(rng, invalid=0.02))


def g_strip(rng):
    if rng.random() < 0.03:
        return mk("strip", wrong_type(rng))
    pre = "".join(rng.choice(WS_CH) for _ in range(rng.choice([0, 0, 1, 2, 3])))
    suf = "".join(rng.choice(WS_CH) for _ in range(rng.choice([0, 0, 1, 2, 3])))
    mid = rand_text(rng, ws=0.25)
    b = (pre + mid + suf).encode()
    if rng.random() < 0.04:
        b = b + b"\xff" + suf.encode()
    return mk("strip", jb(b))


DELIMS = [",", "aa", "ab", "", " and ", "é", "Σ", "a", "aba", ", ", " ", "\U0001f600", ".", "||"]


def g_split(rng):
    r = rng.random()
    if r < 0.04:
        args = [rand_bytes_val(rng), js(","), ji(2)]
        args[rng.randrange(3)] = wrong_type(rng)
        return mk("split", *args)
    d = rng.choice(DELIMS)
    if r < 0.1:
        # regex pattern: outside the model, the oracle only checks the shape
        return mk("split", js(rand_text(rng)), {"r": rng.choice(["a+", ",", "\\s*", "b|c"]).encode().hex()})
    k = rng.randint(0, 5)
    pieces = [rng.choice(["", "a", "b", "x", "aa", "ab", "é", rand_chars(rng, rng.randint(0, 3), ws=0.05)]) for _ in range(k)]
    s = d.join(pieces) if rng.random() < 0.8 else rand_text(rng)
    if rng.random() < 0.15:
        s = rng.choice(["aaaa", "aaaaa", "ababa", "abababa", "aabaa", "", "a"])
        d = rng.choice(["aa", "aba", "ab", "a", ""])
    sv = jb(s.encode() + (b"\xff" if rng.random() < 0.03 else b""))
    dv = jb(d.encode() + (b"\xc3" if rng.random() < 0.02 else b""))
    if rng.random() < 0.45:
        return mk("split", sv, dv)
    n = len(s)
    lim = rng.choice([-1, 0, 1, 2, 3, k, k + 1, k - 1, n + 1, n + 2, n + 3, 999999999, 2 ** 40, gen.I64_MAX, gen.I64_MIN])
    return mk("split", sv, dv, ji(lim))


def g_join(rng):
    n = rng.randint(0, 5)
    items = [rand_bytes_val(rng, invalid=0.05) for _ in range(n)]
    if rng.random() < 0.1 and items:
        items[rng.randrange(n)] = wrong_type(rng)
    arr = ja(items) if rng.random() < 0.95 else wrong_type(rng)
    r = rng.random()
    if r < 0.3:
        return mk("join", arr)
    if r < 0.35:
        return mk("join", arr, wrong_type(rng))
    return mk("join", arr, jb(rng.choice(DELIMS).encode() + (b"\xff" if rng.random() < 0.03 else b"")))


def swapcase_some(rng, t):
    return "".join((c.upper() if rng.random() < 0.5 else c.lower()) if rng.random() < 0.7 else c for c in t)


def g_search(rng, op):
    if rng.random() < 0.03:
        args = [rand_bytes_val(rng), rand_bytes_val(rng)]
        args[rng.randrange(2)] = wrong_type(rng)
        return mk(op, *args)
    s = rand_text(rng, outside=0.05, ws=0.05) if rng.random() < 0.6 else sigma_text(rng) + rand_chars(rng, rng.randint(0, 3))
    n = len(s)
    r = rng.random()
    if r < 0.6:
        # a real prefix / suffix / infix of s
        i, j = sorted((rng.randint(0, n), rng.randint(0, n)))
        if op == "starts_with" and rng.random() < 0.7:
            i = 0
        if op == "ends_with" and rng.random() < 0.7:
            j = n
        p = s[i:j]
        if rng.random() < 0.5:
            p = swapcase_some(rng, p)
        if rng.random() < 0.15:
            p = p + rng.choice(["a", "Σ", "k"])
    elif r < 0.8:
        p = rand_text(rng, outside=0.05, ws=0.05)
    else:
        # the length-changing case pairs: K (Kelvin) / k, İ / i, ẞ / ß ...
        s = rng.choice(["K", "KK", "İa", "i̇a", "ẞ", "Åx", "ia", "Ⱥab", "kk", "Kk", "ſs"])
        p = rng.choice(["kk", "k", "K", "kkk", "İ", "i", "i̇", "ß", "åx", "ⱥ", "ss", "S", "Kkk"])
    sb, pb = s.encode(), p.encode()
    if rng.random() < 0.12:
        # invalid UTF-8 (byte-level cut / stray or truncated bytes, in the needle, the haystack or both)
        bad = rng.choice([b"\xff", b"\xc3", b"\x80", b"\xe2\x82", b"\xf0\x9f\x98", b"\xed\xa0\x80", b"\xc0\xaf", b"\xf5"])
        r2 = rng.random()
        if r2 < 0.3 and len(pb) > 1:
            pb = pb[:-1] if op != "ends_with" else pb[1:]
        elif r2 < 0.6:
            i = rng.randint(0, len(pb))
            sb, pb = sb[:i] + bad + sb[i:], pb[:i] + bad + pb[i:]
        elif r2 < 0.8:
            sb = sb + bad
            if rng.random() < 0.5:
                pb = sb[-1:]
        else:
            i = rng.randint(0, len(pb))
            pb = pb[:i] + bad + pb[i:]
    return mk(op, jb(sb), jb(pb))


def g_truncate(rng):
    if rng.random() < 0.04:
        args = [rand_bytes_val(rng), ji(2), js("...")]
        args[rng.randrange(3)] = wrong_type(rng)
        return mk("truncate", *args[:rng.choice([2, 3])])
    s = rand_text(rng)
    n = len(s)
    lim = rng.choice([n - 2, n - 1, n, n + 1, n + 2, 0, 1, -1, 2, gen.I64_MAX, gen.I64_MIN, 2 ** 33])
    sv = jb(s.encode() + (b"\xff\xfe" if rng.random() < 0.04 else b""))
    r = rng.random()
    if r < 0.35:
        return mk("truncate", sv, ji(lim))
    suf = rng.choice(["", "...", "…", "[…]", " ", "é\U0001f600"])
    return mk("truncate", sv, ji(lim), jb(suf.encode() + (b"\xff" if rng.random() < 0.03 else b"")))


def g_strlen(rng):
    if rng.random() < 0.03:
        return mk("strlen", wrong_type(rng), None)
    if rng.random() < 0.08:
        return mk("strlen", rand_bytes_val(rng, invalid=0.8), None)
    cps = []
    for _ in range(rng.randint(0, 10)):
        r = rng.random()
        if r < 0.3:
            cps.append(rng.randint(0, 127))
        elif r < 0.5:
            cps.append(rng.randint(128, 0x7ff))
        elif r < 0.7:
            cps.append(rng.choice([rng.randint(0x800, 0xd7ff), rng.randint(0xe000, 0xffff)]))
        elif r < 0.9:
            cps.append(rng.randint(0x10000, 0x10ffff))
        else:
            cps.append(rng.choice([0, 0x7f, 0x80, 0x7ff, 0x800, 0xd7ff, 0xe000, 0xffff, 0x10000, 0x10ffff, 0xfffd, 0x301]))
    s = "".join(chr(c) for c in cps)
    return mk("strlen", jb(s.encode("utf-8")), ja([ji(c) for c in cps]))


def g_slice(rng):
    if rng.random() < 0.05:
        args = [js("abc"), ji(1), ji(2)]
        args[rng.randrange(3)] = wrong_type(rng) if rng.random() < 0.8 else jo([])
        return mk("slice", *args[:rng.choice([2, 3])])
    if rng.random() < 0.5:
        b = rand_text(rng).encode()
        v, n = jb(b), len(b)
    else:
        items = [gen.rand_value(rng, depth=1) for _ in range(rng.randint(0, 6))]
        v, n = ja(items), len(items)
    if rng.random() < 0.35:
        return mk("slice", v, ji(rand_index(rng, n)))
    return mk("slice", v, ji(rand_index(rng, n)), ji(rand_index(rng, n)))


def g_unique(rng):
    if rng.random() < 0.03:
        return mk("unique", wrong_type(rng) if rng.random() < 0.5 else js("aab"))
    n = rng.randint(0, 9)
    pool = rng.sample(UNIQ_POOL, rng.randint(1, 6))
    items = [rng.choice(pool) if rng.random() < 0.85 else gen.rand_value(rng, depth=2) for _ in range(n)]
    return mk("unique", ja(items))


def g_compact(rng):
    v = rand_nested(rng, 3)
    if not (isinstance(v, dict) and ("a" in v or "o" in v)) and rng.random() < 0.9:
        v = ja([rand_nested(rng, 2) for _ in range(rng.randint(0, 5))])
    if rng.random() < 0.2:
        return mk("compact", v)
    flags = [rng.random() < 0.6 for _ in range(6)]
    if rng.random() < 0.03:
        flags[rng.randrange(6)] = wrong_type(rng) if rng.random() < 0.7 else js("true")
    return mk("compact", v, *flags)


def g_kvl(rng):
    if rng.random() < 0.05:
        return mk("kvl", wrong_type(rng) if rng.random() < 0.5 else ja([ji(1)]))
    return mk("kvl", rand_obj(rng, 2, keys=("a", "b", "B", "aa", "", "é", "z", "a b", "\U0001f600")))


def g_length(rng):
    return mk("length", gen.rand_value(rng, depth=2) if rng.random() < 0.7 else rand_bytes_val(rng, invalid=0.2))


def g_merge(rng):
    a, b = rand_obj(rng, 2), rand_obj(rng, 2)
    if rng.random() < 0.04:
        if rng.random() < 0.5:
            a = wrong_type(rng) if rng.random() < 0.6 else ja([])
        else:
            b = wrong_type(rng) if rng.random() < 0.6 else ja([])
    r = rng.random()
    if r < 0.3:
        return mk("merge", a, b)
    if r < 0.33:
        return mk("merge", a, b, js("true"))
    return mk("merge", a, b, rng.random() < 0.7)


def g_push(rng):
    a = ja([gen.rand_value(rng, depth=1) for _ in range(rng.randint(0, 4))]) if rng.random() < 0.95 else wrong_type(rng)
    return mk("push", a, gen.rand_value(rng, depth=2))


def g_append(rng):
    a = ja([gen.rand_value(rng, depth=1) for _ in range(rng.randint(0, 4))]) if rng.random() < 0.95 else jo([])
    b = ja([gen.rand_value(rng, depth=1) for _ in range(rng.randint(0, 4))]) if rng.random() < 0.95 else js("x")
    return mk("append", a, b)


def rand_arr_nest(rng, depth):
    n = rng.randint(0, 4)
    return ja([rand_arr_nest(rng, depth - 1) if depth > 0 and rng.random() < 0.45 else
               rng.choice([ji(1), js("a"), None, jo([]), jo([("a", ja([ji(1)]))]), ji(2), True]) for _ in range(n)])


def g_flatten(rng):
    if rng.random() < 0.06:
        return mk("flatten", rng.choice([wrong_type(rng), rand_obj(rng, 2), js("a")]))
    return mk("flatten", rand_arr_nest(rng, 3))


def g_chunks(rng):
    if rng.random() < 0.05:
        return mk("chunks", wrong_type(rng), ji(2)) if rng.random() < 0.5 else mk("chunks", js("abc"), wrong_type(rng))
    b = bytes(rng.choice(b"abc\xc3\xa9\xff ") for _ in range(rng.randint(0, 12)))
    n = rng.choice([1, 2, 3, 4, len(b), len(b) + 1, max(1, len(b) - 1), 0, -1, 2 ** 31, 2 ** 40, gen.I64_MAX, gen.I64_MIN])
    return mk("chunks", jb(b), ji(n))


GENS = [
    (8, g_upcase), (12, g_downcase), (7, g_casing), (7, g_strip), (12, g_split), (5, g_join),
    (9, lambda r: g_search(r, "starts_with")), (7, lambda r: g_search(r, "ends_with")),
    (7, lambda r: g_search(r, "contains")), (8, g_truncate), (4, g_strlen), (9, g_slice), (7, g_unique),
    (12, g_compact), (4, g_kvl), (2, g_length), (9, g_merge), (2, g_push), (2, g_append), (4, g_flatten),
    (4, g_chunks),
]


def sweep_cases():
    cases = [{"op": "ws_sweep", "lo": 0, "hi": 0x110000}]
    step = 0x110000 // 8
    cases += [{"op": "case_sweep", "lo": i * step, "hi": (i + 1) * step} for i in range(8)]
    for lo, hi in CASE_DOMAIN:
        c = lo
        while c < hi:
            cases.append({"op": "casetab", "lo": c, "hi": min(hi, c + 0x400)})
            c += 0x400
    return cases


def gen_cases(run, n):
    rng = run.rng
    cases = sweep_cases() if not getattr(run, "_c28_sweeps_done", False) else []
    run._c28_sweeps_done = True
    total = sum(w for w, _ in GENS)
    for w, g in GENS:
        for _ in range(max(1, n * w // total)):
            cases.append(g(rng))
    return cases


# ------------------------------------------------------------------------------------------------
# rendering
# ------------------------------------------------------------------------------------------------
def coq_res(o):
    if "ok" in o:
        return "(ROk %s)" % coq_value(o["ok"])
    if o.get("err") in ("error", "abort"):
        return "RErr"
    raise ValueError("unexpected step result %r" % (o,))


def coq_nlist(l):
    return "[%s]%%N" % "; ".join(str(int(x)) for x in l)


def to_coq(c, o):
    op = c["op"]
    if op == "ws_sweep":
        return "CWs %d%%N %d%%N %s" % (c["lo"], c["hi"], coq_nlist(o["ws"]))
    if op == "case_sweep":
        return "CCaseSweep %d%%N %d%%N %s %s %s %s" % (c["lo"], c["hi"], coq_nlist(o["bad_up"][:50]), coq_nlist(o["bad_down"][:50]),
                                                    coq_nlist(o["bad_up_pt"][:50]), coq_nlist(o["bad_down_pt"][:50]))
    if op == "casetab":
        ents = ["(%d%%N, %s, %s, %s, %s)" % (e[0], coq_nlist(e[1]), coq_nlist(e[2]), coq_bool(e[3]), coq_bool(e[4]))
                for e in o["tab"]]
        return "CCaseTab [%s]" % "; ".join(ents)
    return "CRun %s [%s] [%s]" % (OPS[op], "; ".join(coq_value(a) for a in c["args"]),
                                  "; ".join(coq_res(x) for x in o["outs"]))


# ------------------------------------------------------------------------------------------------
# known findings
# ------------------------------------------------------------------------------------------------
def _arg_bytes(c, i):
    try:
        a = c["args"][i]
        return bytes.fromhex(a["b"]) if isinstance(a, dict) and "b" in a else None
    except Exception:
        return None


def _valid(b):
    try:
        b.decode("utf-8")
        return True
    except Exception:
        return False


def _len_changing(ch):
    lo = ch.lower()
    return len(lo) != 1 or len(lo.encode()) != len(ch.encode())


def _out_text(o, i):
    try:
        return bytes.fromhex(o["outs"][i]["ok"]["b"]).decode("utf-8", "replace")
    except Exception:
        return None


def _casing_matcher(cls, c, o):
    a = c["args"][0] if c.get("args") else None
    if "panic" in o or not (isinstance(a, dict) and "b" in a):
        return False
    text = bytes.fromhex(a["b"]).decode("utf-8", "replace")
    if cls == "casing-multichar-upper":
        return any(len(ch.upper()) > 1 or (unicodedata.combining(ch) and ch.upper() != ch) for ch in text)
    if cls == "casing-titlecase":
        return any(unicodedata.category(ch) == "Lt" for ch in text)
    if cls == "casing-camel-resegmentation":
        # only camelcase / pascalcase (outs 0..3) may differ, and the first pass must show a capital whose predecessor
        # is neither a lowercase letter nor a digit (another capital, punctuation, a caseless letter): a boundary
        # that only the removed separator marked
        outs = [_out_text(o, i) for i in range(10)]
        if None in outs or any(outs[i] != outs[i + 1] for i in (4, 6, 8)):
            return False
        bad = [i for i in (0, 2) if outs[i] != outs[i + 1]]
        def weak_capital(t):
            # graphemes approximated as base char + following combining marks
            gs = []
            for ch in t:
                if unicodedata.combining(ch) and gs:
                    gs[-1] = (gs[-1][0], True)
                else:
                    gs.append((ch, False))
            for (x, xm), (y, _) in zip(gs, gs[1:]):
                strong = x.islower() or (x.isdigit() and x.isascii() and not xm)
                if y.isupper() and not strong:
                    return True
            return False
        return bool(bad) and all(weak_capital(outs[i]) for i in bad)
    return False


def known_matcher(entry, c, o):
    cls = entry.get("match", {}).get("class")
    op = c.get("op")
    if op == "casing":
        return _casing_matcher(cls, c, o)
    if op not in ("starts_with", "ends_with", "contains"):
        return False
    s, p = _arg_bytes(c, 0), _arg_bytes(c, 1)
    if s is None or p is None:
        return False
    if "panic" in o:
        return False
    text = s.decode("utf-8", "replace") + p.decode("utf-8", "replace")
    if cls == "ci-final-sigma":
        return "Σ" in text
    if cls == "starts-with-ci-zip":
        return op == "starts_with" and any(_len_changing(ch) for ch in text)
    return False


def nontrivial(c):
    if "lo" in c:
        return True
    a = c.get("args", [])
    return any((isinstance(x, dict) and (x.get("b") or x.get("a") or x.get("o"))) for x in a)


def main(run, args):
    import checklib
    n = 3600 if run.tier == "quick" else 45000
    if args.cases:
        n = args.cases
    return checklib.standard(run, ID, THEOREMS, IMPORTS, "strfn", gen_cases, to_coq, n, nontrivial=nontrivial,
                             replay=args.replay, known_matcher=known_matcher)
