"""C04 — compiling and running never panics the host."""
import json

import corevrl as cv
import stdcommon as sc
import vlib
from vlib import ji, js, jo, ja

ID = "C04"
THEOREMS = ["C04_core_programs_never_panic_partial", "C04_core_expressions_never_panic_partial", "C04_filter_expect_is_a_panic_site", "C04_nonvacuous"]
MANIFEST = {
    "level": "exploration",
    "technique": "catch_unwind / process-abort sweep: every stdlib function (examples + generated tuples), generated and mutated VRL sources through the real compiler, generated programs through Runtime::resolve; + Coq panic-freedom theorem for the Core-VRL runtime model tied by correspondence",
    "text": "EXPLORATION with a proved core. The lexer, LALRPOP parser, compiler, codespan and ~190 Rust functions have no Gallina "
            "model (DESIGN.md section 9), so absence of panics there is searched for, not proved. Proved (closed, Coq, all "
            "function/operator semantics, states and fault schedules): a Core-VRL program without empty blocks and without "
            "filter closures never reaches the runtime's panic sites (the model marks the two expect()s explicitly); the model "
            "is compared with the implementation on every generated program (a caught panic must coincide with the model's "
            "Panic outcome). Searched: all 203 stdlib functions with examples and generated argument tuples (i64::MIN, +-inf, "
            "huge counts, wrong kinds), valid programs, token- and byte-level mutations of them incl. unicode, through "
            "compile + run under catch_unwind in a worker process whose death the driver observes.",
    "note": "Trusted: catch_unwind + process exit status, Python generators; for the proved core: Coq kernel + vm_compute + "
            "correspondence. Memory/stack exhaustion inputs are excluded by size caps (out of scope per the property). Known "
            "findings: 14 panicking stdlib calls + compile-time panics of Kind::remove / Kind::get on negative indices.",
    "design_ref": "DESIGN.md section 5 C04",
}
TOKENS = ["(", ")", "{", "}", "[", "]", ",", ";", "\n", "=", "==", "!", "??", "||", "&&", "|", ".", "..", "%", "@", "\"", "'", "\\", "#", "->",
          "if", "else", "abort", "return", "null", "true", "r'", "s'", "t'", "-", "+", "*", "/", "1", "9223372036854775808", "-9223372036854775808",
          "1e999", "0.", ".a[", ".a[-9223372036854775808]", "é", "日本", "‏", "﻿", "𝒳", "́", "\\u{110000}", "\\u{", "{{", "}}", "del(", "x[-2]"]


WS = [" ", "\t", "\u00a0", "\u3000", "\u2003", "\u2028", "\ufeff", "\u0085", "\u1680", "é", "日"]
ESC = ["\\n", "\\t", "\\\"", "\\\\", "\\0", "\\'", "\\u{41}", "\\u{1F30}", "\\u{}", "\\u{110000}", "\\u{12x}", "\\u{41", "\\u", "\\x41", "\\é", "\\",
       "{{ x }}", "{{", "{{ .a }}", "{{ é }}", "}}"]


def lexer_sources(rng, n):
    """sources aimed at the lexer's string handling: every literal flavour (\"..\", s'..', r'..', t'..') filled with escapes,
    line continuations (backslash-newline followed by ASCII and non-ASCII white space), templates and multi-byte
    characters, complete or cut off at every position"""
    out = []
    for _ in range(n):
        parts = []
        for _ in range(rng.randint(1, 5)):
            c = rng.random()
            if c < 0.3:
                parts.append("\\\n" + "".join(rng.choice(WS) for _ in range(rng.randint(0, 3))))
            elif c < 0.6:
                parts.append(rng.choice(ESC))
            else:
                parts.append(rng.choice(["a", "bc", "é", "日本", " ", "1", "𝒳"]))
        body = "".join(parts)
        q = rng.random()
        lit = '"%s"' % body if q < 0.6 else ("s'%s'" % body if q < 0.75 else ("r'%s'" % body if q < 0.9 else "t'%s'" % body))
        src = rng.choice([".a = %s", "x = %s\nx", "%s", "upcase(%s)", ".a = replace(\"x\", \"y\", %s)", "{ \"k\": %s }", "[%s, 1]"]) % lit
        if rng.random() < 0.3:
            src = src[:rng.randint(1, len(src))]
        out.append(src)
    return out


def mutate(rng, src):
    k = rng.random()
    if k < 0.3:
        i = rng.randrange(len(src) + 1)
        return src[:i] + rng.choice(TOKENS) + src[i:]
    if k < 0.5 and src:
        i = rng.randrange(len(src))
        j = min(len(src), i + rng.randint(1, 6))
        return src[:i] + src[j:]
    if k < 0.65 and src:
        i = rng.randrange(len(src))
        return src[:i]
    if k < 0.8:
        i = rng.randrange(len(src) + 1)
        j = rng.randrange(len(src) + 1)
        a, b = min(i, j), max(i, j)
        return src[:a] + src[a:b] * 2 + src[b:]
    return "".join(rng.choice(TOKENS + [" ", "a", "x", ".a", "= 1"]) for _ in range(rng.randint(1, 12)))


def main(run, args):
    quick = run.tier == "quick"
    rng = run.rng
    pl = vlib.proof_leg(ID, THEOREMS)
    for pr in pl["problems"]:
        vlib.log("proof-leg problem:", pr["kind"], pr["detail"][:400])
    if args.replay:
        r = json.load(open(args.replay))
        vlib.build_harness("prog")
        vlib.build_harness("stdfn")
        if "harness_case" in r:
            o = vlib.run_harness("prog", [r["harness_case"]], procs=1)[0]
        else:
            c = {"fn": r["function"], "plain": r["source"], "bang": None, "event": r["event"], "args": [], "origin": "generated"}
            o = sc.run_calls([c], 5000)[0]
        bad = any(k in o for k in ("panic", "crash", "run_panic")) or o.get("compile") == "panic"
        print(json.dumps(o)[:1500])
        if bad:
            print("VIOLATION property=%s replay=%s" % (ID, args.replay))
        return 1 if bad else 0
    # ---- (1) stdlib sweep
    fns, cases, outs, viol = sc.sweep(run, ID, 12 if quick else 60, 3000)
    sc.report(run, ID, fns, cases, outs, viol)
    known = {k["id"]: k for k in vlib.known_findings(ID)}
    # ---- (2) programs: valid (model-tied) and mutated (compile/render/run under catch_unwind)
    vlib.build_harness("prog")
    pcases = cv.gen_random_cases(run, 500 if quick else 4000)
    pouts, compiled, bad_check, failed, err = cv.run_cases(ID, pcases)
    msrc = []
    for c in pcases:
        s = cv.vrl_program(c["ast"])
        for _ in range(2 if quick else 4):
            m = s
            for _ in range(rng.randint(1, 3)):
                m = mutate(rng, m)
            msrc.append((m, c["event"]))
    msrc += [(m, cv.jo([])) for m in lexer_sources(rng, 600 if quick else 6000)]
    mcases = [{"src": m.encode("utf-8", "surrogatepass").hex() if False else m.encode("utf-8", "ignore").hex(), "event": ev, "vars": []} for m, ev in msrc]
    mouts = vlib.run_harness("prog", mcases)
    pan = []
    for hc, o in list(zip([cv.harness_case(c) for c in pcases], pouts)) + list(zip(mcases, mouts)):
        if isinstance(o, dict) and (any(k in o for k in ("panic", "crash")) or o.get("compile") == "panic"):
            pan.append((hc, o))
    reported = 0
    for hc, o in pan:
        src = bytes.fromhex(hc["src"]).decode("utf-8", "replace")
        fid = None
        import re
        if re.search(r"\[\s*-9223372036854775808\s*\][^=\n;]*(=[^=]|,)", src):
            fid = "C04-compile-insert-isize-min"
        if fid in known:
            run.known(fid, known[fid]["what"])
            continue
        if reported < 3:
            reported += 1
            run.violation({"kind": "property fails on the implementation", "why": "compile / run of a source text panicked",
                           "source": src, "harness_case": hc, "impl": o})
    if bad_check and not run.violations:
        i = bad_check[0]
        run.violation({"kind": "correspondence broken: model and implementation disagree", "correspondence_suite": "Core-VRL programs",
                       "source": cv.vrl_program(pcases[i]["ast"]), "case": pcases[i], "impl": pouts[i], "theorems_about_model": THEOREMS}, nofail=True)
    if pl["problems"] and not any(not nf for _, nf in run.violations):
        run.violation({"kind": "proof obligation no longer checks", "theorems": THEOREMS, "problems": pl["problems"][:10]}, nofail=True)
    cov = sc.coverage(run, fns, cases, outs, viol, pl)
    cov["evaluations"] += len(pcases) + len(mcases)
    cov.update({"checker_cmd": "make -C coq Properties/C04.vo + Print Assumptions + pinned statements (proved core only)",
                "trusted_base": ["catch_unwind / process exit status", "Python generators and mutators", "Coq kernel + vm_compute for the proved core"],
                "programs_generated": len(pcases), "programs_compiled": len(compiled), "mutated_sources": len(mcases),
                "mutated_sources_accepted": sum(1 for o in mouts if o.get("compile") == "ok"),
                "panics_in_program_streams": len(pan), "correspondence_disagreements": len(bad_check),
                "known_finding_hits": sorted(run.known_hits)})
    return run.finish(cov)
