"""C30 — Datadog search queries round-trip through their text form."""
import json
import re

import vlib
import ddlib
from ddlib import hx, coq_node

ID = "C30"
THEOREMS = ["C30_escape_term", "C30_escape_quoted", "C30_lex_term", "C30_lex_prefix", "C30_quoted", "C30_int_bound",
            "C30_value_term", "C30_value_quoted", "C30_value_range", "C30_value_wild", "C30_multiterm_roundtrip", "C30_fold_and", "C30_fold_or",
            "C30_node_roundtrip", "C30_node_roundtrip_nofloat", "C30_text_roundtrip", "C30_roundtrip_nonvacuous",
            "C30_whitespace_refuted", "C30_attr_raw_refuted", "C30_float_text_refuted", "C30_keyword_refuted",
            "C30_wildcard_raw_refuted", "C30_wildcard_multiterm_refuted", "C30_string_bound_refuted",
            "C30_not_not_refuted", "C30_nodocs_nested_refuted", "C30_range_panic_refuted",
            "C30_unicode_blank_refuted"]
IMPORTS = ("From Coq Require Import List ZArith NArith String.\n"
           "From VRL Require Import Base.Bytes Base.Value Base.Lit Model.DdNode Model.DdSearch Corr.C30.\n"
           "Local Open Scope string_scope.")
MANIFEST = {
    "level": "proof",
    "technique": "Coq proofs on a hand model of grammar.pest (recursive descent with pest's skip/atomicity semantics), the "
                 "QueryVisitor and to_lucene: escaping/lexical lemmas and the tree-level round trip by nested induction; "
                 "differential correspondence of parse / to_lucene vs the implementation on PEG-generated and mutated "
                 "texts; the round trip itself as oracle on the implementation",
    "text": "Closed Coq theorems: unescape(lucene_escape s)=s and unescape(quoted_escape s)=s for all s; the escaped text of "
            "a term is consumed as exactly one TERM (and TERM_PREFIX, PHRASE) of the grammar; printed integers read back; "
            "visit_query folds AND/OR lists into the Boolean node; and parse(to_lucene n) = n for every `safe` tree n "
            "(induction over negations, AND/OR lists with their parentheses, and every kind of leaf incl. wildcards; "
            "plus the bare multi-word term as whole query), hence "
            "parse(to_lucene(parse q)) = parse q for accepted texts with a safe tree. The unchanged implementation "
            "violates the property outside `safe`: eleven finding classes, each with a `_refuted` witness in Coq, a "
            "corpus case and a specific matcher.",
    "note": "`safe` is the complement of the recorded finding classes (slightly stricter: attribute names with `/` are "
            "excluded). Float bounds: their f64 Display text is a hypothesis (num_text_ok) "
            "of C30_node_roundtrip; C30_node_roundtrip_nofloat is hypothesis-free. In the correspondence run the "
            "model's to_lucene receives the implementation's own Display text of each float. Text is modelled as UTF-8 "
            "bytes (every special character of the grammar is ASCII); i64/f64 from_str are modelled (f64 by exact "
            "rational rounding with SpecFloat). pest's optimizer is trusted to preserve the PEG semantics. No axioms.",
    "design_ref": "DESIGN.md section 5 C30",
}


def gen_cases(run, n):
    rng = run.rng
    cases = []
    for _ in range(n):
        r = rng.random()
        d = rng.choice([0, 1, 1, 2, 2, 3, 4])
        if r < 0.55:
            q = ddlib.query_text(rng, d, safe=True)
            kind = "safe"
        elif r < 0.8:
            q = ddlib.query_text(rng, d, safe=False)
            kind = "full"
        elif r < 0.95:
            q = ddlib.mutate_text(rng, ddlib.query_text(rng, d, safe=rng.random() < 0.5))
            kind = "mutated"
        else:
            q = rng.choice([" ", "", "\t\n", "　", "  ", "*", "*:*", "-*:*", "a", " a ", "　a"])
            kind = "edge"
        cases.append({"op": "parse", "kind": kind, "q": q})
    return cases


def coq_ires(t):
    if t == "err":
        return "IErr"
    if t == "panic":
        return "IPanic"
    return "(IOk %s)" % coq_node(t)


def to_coq(c, o):
    fl = o.get("fl", [])
    tab = "[%s]" % "; ".join("(f64_of_bits 0x%s, %s)" % (b, hx(s)) for b, s in fl)
    return "CParse %s %s %s %s %s %s" % (hx(c["q"]), coq_ires(o["t"]), hx(o.get("l", "")), coq_ires(o.get("t2", "err")),
                                         hx(o.get("l2", "")), tab)


def nontrivial(c):
    return len(c["q"]) >= 3


MIXED = re.compile(r"\[[^\]\}]*\}|\{[^\]\}]*\]")


def known_matcher(entry, case, out):
    """A failing round trip belongs to a recorded finding only when the parsed tree shows that very hazard."""
    if not isinstance(out, dict):
        return False
    cls = entry["match"]["class"]
    t = out.get("t")
    if t == "panic":
        return cls == "range-panic" and MIXED.search(case.get("q", "")) is not None
    if not isinstance(t, dict):
        return False
    return cls in ddlib.tree_hazards(t, dict(out.get("fl", [])))


def main(run, args):
    import checklib
    n = (args.cases or 3000) if run.tier == "quick" else 60000
    return checklib.standard(run, ID, THEOREMS, IMPORTS, "dd", gen_cases, to_coq, n, nontrivial=nontrivial,
                             replay=args.replay, known_matcher=known_matcher)
