"""C30 — Datadog search queries round-trip through their text form."""
import json
import re

import vlib
import ddlib
from ddlib import hx, coq_node

ID = "C30"
THEOREMS = []
IMPORTS = ("From Coq Require Import List ZArith NArith String.\n"
           "From VRL Require Import Base.Bytes Base.Value Base.Lit Model.DdNode Model.DdSearch Corr.C30.\n"
           "Local Open Scope string_scope.")
MANIFEST = {
    "level": "proof",
    "technique": "",
    "text": "",
    "note": "",
    "design_ref": "DESIGN.md section 5 C30",
}


def gen_cases(run, n):
    rng = run.rng
    cases = []
    for _ in range(n):
        r = rng.random()
        d = rng.choice([0, 1, 1, 2, 2, 3, 4])
        if r < 0.55:
            q = ddlib.query_text(rng, d, safe=True)
            kind = "safe"
        elif r < 0.8:
            q = ddlib.query_text(rng, d, safe=False)
            kind = "full"
        elif r < 0.95:
            q = ddlib.mutate_text(rng, ddlib.query_text(rng, d, safe=rng.random() < 0.5))
            kind = "mutated"
        else:
            q = rng.choice([" ", "", "\t\n", "　", "  ", "*", "*:*", "-*:*", "a", " a ", "　a"])
            kind = "edge"
        cases.append({"op": "parse", "kind": kind, "q": q})
    return cases


def coq_ires(t):
    if t == "err":
        return "IErr"
    if t == "panic":
        return "IPanic"
    return "(IOk %s)" % coq_node(t)


def to_coq(c, o):
    fl = o.get("fl", [])
    tab = "[%s]" % "; ".join("(f64_of_bits 0x%s, %s)" % (b, hx(s)) for b, s in fl)
    return "CParse %s %s %s %s %s %s" % (hx(c["q"]), coq_ires(o["t"]), hx(o.get("l", "")), coq_ires(o.get("t2", "err")),
                                         hx(o.get("l2", "")), tab)


def nontrivial(c):
    return len(c["q"]) >= 3


def known_matcher(entry, case, out):
    return False


def main(run, args):
    import checklib
    n = (args.cases or 3000) if run.tier == "quick" else 60000
    return checklib.standard(run, ID, THEOREMS, IMPORTS, "dd", gen_cases, to_coq, n, nontrivial=nontrivial,
                             replay=args.replay, known_matcher=known_matcher)
