"""C36 — results are independent of the configured timezone where they should be."""
import json
import os
import re

import corevrl as cv
import vlib
from vlib import ji, js, jo, ja, jts

ID = "C36"
THEOREMS = ["C36_timezone_reaches_programs_only_through_sensitive_calls", "C36_expression_level", "C36_call_free_programs", "C36_example"]
MANIFEST = {
    "level": "proof",
    "technique": "Coq congruence proof (the timezone reaches a program only through the semantics of called functions) + differential correspondence under several timezones + stdlib time-function sweep under timezone pairs + source scan of ctx.timezone() sites",
    "text": "Closed Coq theorem: if every function a program calls gives the same result under two timezones, the whole run "
            "(result, event, metadata, variables, target operations) is identical under both. PARTIAL: which functions are "
            "sensitive is established on the implementation: the set of files reading ctx.timezone() is scanned and must equal "
            "the classified set; time functions are run under timezone pairs (UTC, +14, DST zones, local): zoned formats, "
            "explicit timezone arguments, RFC 3339 texts and formatting must give identical results; generated Core-VRL "
            "programs (no sensitive call) are run under several timezones, must coincide, and are compared with the model.",
    "note": "Trusted: Coq kernel + vm_compute; hand model Model/Eval.v (tie = correspondence); chrono/chrono-tz behaviour is "
            "not modelled (hypothesis of the theorem, exercised by the sweep). No axioms.",
    "design_ref": "DESIGN.md section 5 C36",
}
TZS = ["UTC", "Europe/Berlin", "America/New_York", "Asia/Kolkata", "Pacific/Kiritimati", "America/St_Johns"]
# files that consult ctx.timezone(), with the argument shapes under which the result may depend on it
SENSITIVE_FILES = ["src/cli/cmd.rs",                               # CLI plumbing of the --timezone option
                   "src/datadog/grok/matchers/date.rs",            # chrono's DateTime::timezone(), zone comes from the grok pattern
                   "src/stdlib/get_timezone_name.rs", "src/stdlib/parse_apache_log.rs", "src/stdlib/parse_common_log.rs",
                   "src/stdlib/parse_nginx_log.rs", "src/stdlib/parse_syslog.rs", "src/stdlib/parse_timestamp.rs"]

TS = [0, 1614834367 * 10**9 + 123456789, 1616893200 * 10**9, 1635642000 * 10**9, -86400 * 10**9, 951782400 * 10**9]
# (source, event fields, sensitive?)  -- insensitive programs must give identical results under every timezone
TEMPLATES = [
    ('parse_timestamp!(.s, format: "%Y-%m-%d %H:%M:%S %z")', {"s": "2021-03-04 05:06:07 +0200"}, False),
    ('parse_timestamp!(.s, format: "%Y-%m-%dT%H:%M:%S%:z")', {"s": "2021-03-28T02:30:00-05:00"}, False),
    ('parse_timestamp!(.s, format: "%+")', {"s": "2021-10-31T01:30:00.5+01:00"}, False),
    ('parse_timestamp!(.s, format: "%+")', {"s": "2020-02-29T23:59:59Z"}, False),
    ('parse_timestamp!(.s, format: "%s")', {"s": "1614834367"}, False),
    # every zone specifier format_has_zone() recognises makes the parse independent of the configured zone
    ('parse_timestamp!(.s, format: "%Y-%m-%d %H:%M:%S %#z")', {"s": "2021-03-04 05:06:07 +02"}, False),
    ('parse_timestamp!(.s, format: "%Y-%m-%d %H:%M:%S %#z")', {"s": "2021-03-04 05:06:07 -0930"}, False),
    # offsets that coincide with the offset one of the swept zones has at that instant (Berlin +01, New York -05, Kolkata
    # +05:30, St John's -03:30, Kiritimati +14): a format wrongly treated as zone-less then parses under that zone only
    ('parse_timestamp!(.s, format: "%Y-%m-%d %H:%M:%S %#z")', {"s": "2021-03-04 05:06:07 +01"}, False),
    ('parse_timestamp!(.s, format: "%Y-%m-%d %H:%M:%S %#z")', {"s": "2021-03-04 05:06:07 -05"}, False),
    ('parse_timestamp!(.s, format: "%Y-%m-%d %H:%M:%S %#z")', {"s": "2021-03-04 05:06:07 +0530"}, False),
    ('parse_timestamp!(.s, format: "%Y-%m-%d %H:%M:%S %z")', {"s": "2021-03-04 05:06:07 +0100"}, False),
    ('parse_timestamp!(.s, format: "%Y-%m-%d %H:%M:%S %z")', {"s": "2021-03-04 05:06:07 -0330"}, False),
    ('parse_timestamp!(.s, format: "%Y-%m-%dT%H:%M:%S%:z")', {"s": "2021-03-04T05:06:07+01:00"}, False),
    ('parse_timestamp!(.s, format: "%Y-%m-%dT%H:%M:%S%:z")', {"s": "2021-03-04T05:06:07+14:00"}, False),
    ('parse_timestamp!(.s, format: "%+")', {"s": "2021-03-04T05:06:07+05:30"}, False),
    ('to_unix_timestamp(parse_timestamp!(.s, format: "%d/%m/%Y %H:%M %#z"))', {"s": "10/07/2020 16:00 +09"}, False),
    ('parse_timestamp!(.s, format: "%Y-%m-%d %H:%M:%S %Z")', {"s": "2021-03-04 05:06:07 UTC"}, False),
    # an explicit timezone argument overrides the configured one; "" and "local" both name the system zone
    ('parse_timestamp!(.s, format: "%Y-%m-%d %H:%M:%S", timezone: "")', {"s": "2021-03-04 05:06:07"}, False),
    ('parse_timestamp!(.s, format: "%Y-%m-%d %H:%M:%S", timezone: "local")', {"s": "2021-03-04 05:06:07"}, False),
    ('parse_timestamp!(.s, format: "%Y-%m-%d %H:%M:%S", timezone: string!(.tz))', {"s": "2021-03-04 05:06:07", "tz": ""}, False),
    ('parse_timestamp!(.s, format: "%Y-%m-%d %H:%M:%S", timezone: string!(.tz))', {"s": "2021-03-04 05:06:07", "tz": "Asia/Kolkata"}, False),
    ('format_timestamp!(.t, format: "%Y-%m-%d %H:%M:%S", timezone: "")', {"t": "TS"}, False),
    ('parse_timestamp!(.s, format: "%Y-%m-%d %H:%M:%S", timezone: "Asia/Tokyo")', {"s": "2021-03-04 05:06:07"}, False),
    ('parse_timestamp!(.s, format: "%Y-%m-%d %H:%M:%S", timezone: "UTC")', {"s": "2021-03-28 02:30:00"}, False),
    ('parse_timestamp!(.s, format: "%Y-%m-%d %H:%M:%S")', {"s": "2021-03-04 05:06:07"}, True),
    ('parse_timestamp!(.s, format: "%d/%b/%Y:%H:%M:%S")', {"s": "04/Mar/2021:05:06:07"}, True),
    ('format_timestamp!(.t, format: "%Y-%m-%d %H:%M:%S %z")', {"t": "TS"}, False),
    ('format_timestamp!(.t, format: "%+")', {"t": "TS"}, False),
    ('format_timestamp!(.t, format: "%Y-%m-%d %H:%M:%S %Z", timezone: "Europe/Berlin")', {"t": "TS"}, False),
    ('format_timestamp!(.t, format: "%s%.9f")', {"t": "TS"}, False),
    ('to_unix_timestamp!(.t)', {"t": "TS"}, False),
    ('to_unix_timestamp!(.t, unit: "nanoseconds")', {"t": "TS"}, False),
    ('from_unix_timestamp!(.n)', {"n": 1614834367}, False),
    ('to_string!(.t)', {"t": "TS"}, False),
    ('encode_json(.t)', {"t": "TS"}, False),
    ('to_int!(.t)', {"t": "TS"}, False),
    ('.t == .t', {"t": "TS"}, False),
    ('parse_syslog!(.s)', {"s": "<13>1 2020-03-13T20:45:38.119Z dynamicwireless.name non 2426 ID931 - Try to override"}, False),
    ('parse_syslog!(.s)', {"s": "<34>Oct 11 22:14:15 mymachine su: failed"}, True),
    ('parse_common_log!(.s)', {"s": '127.0.0.1 bob frank [10/Oct/2000:13:55:36 -0700] "GET /x HTTP/1.0" 200 2326'}, False),
    ('parse_apache_log!(.s, format: "common")', {"s": '127.0.0.1 bob frank [10/Oct/2000:13:55:36 -0700] "GET /x HTTP/1.0" 200 2326'}, False),
    ('parse_nginx_log!(.s, format: "combined")', {"s": '172.17.0.1 - alice [01/Apr/2021:12:02:31 +0000] "POST /x HTTP/1.1" 200 615 "-" "curl/7.64.0"'}, False),
    ('parse_duration!(.s, unit: "s")', {"s": "1h"}, False),
    ('get_timezone_name!()', {}, True),
]


def scan():
    out = []
    for dp, _, fs in os.walk(os.path.join(vlib.REPO, "src")):
        for fn in fs:
            if fn.endswith(".rs"):
                p = os.path.join(dp, fn)
                txt = open(p, errors="replace").read().split("#[cfg(test)]")[0]
                if re.search(r"\.timezone\(\)", txt) and "src/compiler/context.rs" not in p.replace("\\", "/"):
                    out.append(os.path.relpath(p, vlib.REPO))
    return sorted(out)


def main(run, args):
    quick = run.tier == "quick"
    rng = run.rng
    pl = vlib.proof_leg(ID, THEOREMS)
    for pr in pl["problems"]:
        vlib.log("proof-leg problem:", pr["kind"], pr["detail"][:400])
    vlib.build_harness("prog")
    if args.replay:
        r = json.load(open(args.replay))
        outs = vlib.run_harness("prog", r["harness_cases"])
        views = [(o.get("result"), o.get("event"), o.get("meta")) for o in outs]
        print(json.dumps(views)[:3000])
        bad = any(v != views[0] for v in views)
        if bad:
            print("VIOLATION property=%s replay=%s" % (ID, args.replay))
        return 1 if bad else 0
    # ---- part A: Core-VRL programs under several timezones (model-tied)
    n = 400 if quick else 6000
    cases = cv.gen_random_cases(run, n)
    outs, compiled, bad_check, failed, err = cv.run_cases(ID, cases)
    tzcases, index = [], []
    for i in compiled:
        for tz in rng.sample(TZS[1:], 2):
            h = cv.harness_case(cases[i])
            h["tz"] = tz
            tzcases.append(h)
            index.append(i)
    tzouts = vlib.run_harness("prog", tzcases)
    viol = 0
    for h, i, o in zip(tzcases, index, tzouts):
        if any(k in o for k in ("panic", "crash", "timeout", "harness_error")):
            continue
        if (o.get("result"), o.get("event"), o.get("meta"), o.get("vars")) != (outs[i]["result"], outs[i]["event"], outs[i]["meta"], outs[i]["vars"]):
            if viol < 3:
                viol += 1
                run.violation({"kind": "property fails on the implementation", "why": "a program without timezone-sensitive calls gives different results under UTC and %s" % h["tz"],
                               "source": cv.vrl_program(cases[i]["ast"]), "harness_cases": [cv.harness_case(cases[i]), h]})
    # ---- part B: time functions under every timezone
    tcases, tmeta = [], []
    for ti, (src, fields, sensitive) in enumerate(TEMPLATES):
        tss = TS if any(v == "TS" for v in fields.values()) else [0]
        for ts in tss:
            ev = jo([(k, (jts(ts) if v == "TS" else (ji(v) if isinstance(v, int) else js(v)))) for k, v in fields.items()])
            for tz in TZS:
                tcases.append({"src": src.encode().hex(), "event": ev, "vars": [], "tz": tz, "no_unused_check": True})
                tmeta.append((src, ts, tz, sensitive, ti))
    touts = vlib.run_harness("prog", tcases)
    groups = {}
    for c, m, o in zip(tcases, tmeta, touts):
        groups.setdefault((m[4], m[0], m[1]), []).append((m, c, o))
    sens_differs = 0
    compile_fail = []
    for (_ti, src, ts), items in groups.items():
        if any(o.get("compile") != "ok" for _, _, o in items):
            compile_fail.append(src)
            continue
        views = [o.get("result") for _, _, o in items]
        differs = any(v != views[0] for v in views)
        if items[0][0][3]:
            sens_differs += 1 if differs else 0
        elif differs and viol < 6:
            viol += 1
            run.violation({"kind": "property fails on the implementation",
                           "why": "`%s` has an explicit zone/offset/timezone argument (or does not interpret wall-clock time) but its result depends on the configured timezone" % src,
                           "results": {m[2]: o.get("result") for m, _, o in items}, "harness_cases": [c for _, c, _ in items]})
    if compile_fail and not run.violations:
        run.violation({"kind": "time-function templates no longer compile", "sources": sorted(set(compile_fail))}, nofail=True)
    # ---- sensitive-site inventory
    sites = scan()
    if sites != SENSITIVE_FILES and not run.violations:
        run.violation({"kind": "the set of source files reading the configured timezone changed; the sweep classifies only the known ones",
                       "known": SENSITIVE_FILES, "found": sites}, nofail=True)
    if bad_check and not run.violations:
        i = bad_check[0]
        run.violation({"kind": "correspondence broken: model and implementation disagree", "correspondence_suite": "Core-VRL programs",
                       "source": cv.vrl_program(cases[i]["ast"]), "case": cases[i], "impl": outs[i], "theorems_about_model": THEOREMS}, nofail=True)
    if err and not run.violations:
        run.violation({"kind": "model evaluation failed", "detail": err}, nofail=True)
    if pl["problems"] and not any(not nf for _, nf in run.violations):
        run.violation({"kind": "proof obligation no longer checks", "theorems": THEOREMS, "problems": pl["problems"][:10]}, nofail=True)
    cov = {"obligations": pl["obligations"], "discharged": pl["discharged"],
           "checker_cmd": "make -C coq Properties/C36.vo + Print Assumptions + pinned statements",
           "trusted_base": ["Coq 8.16.1 kernel incl. vm_compute", "hand model Model/Eval.v", "Rust harness prog", "chrono / chrono-tz (not modelled)"],
           "axioms": pl.get("axioms", {}), "evaluations": len(tzcases) + len(tcases),
           "distinct_nontrivial": len({c["src"] for c in tzcases}) + len(groups),
           "rule": "Core-VRL programs x 3 timezones (identical results required, model-checked under UTC) + %d time-function templates x timestamps x %d timezones; seed %d" % (len(TEMPLATES), len(TZS), run.seed),
           "core_programs_compiled": len(compiled), "timezone_runs": len(tzcases), "time_function_groups": len(groups),
           "sensitive_groups_that_differ": sens_differs, "traces_validated_against_impl": len(compiled),
           "correspondence_disagreements": len(bad_check), "timezone_sites": sites,
           "samples": [{"source": m[0], "tz": m[2], "result": o.get("result")} for m, o in list(zip(tmeta, touts))[:4]]}
    return run.finish(cov)
