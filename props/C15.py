"""C15 — read-only paths are never modified."""
import json

import corevrl as cv
import vlib
from corevrl import lit, ev_field, set_field, mark, f
from vlib import ji, js, jo, ja, coq_path

ID = "C15"
THEOREMS = ["C15_recursive_read_only_unchanged_partial", "C15_separate_locations_kept", "C15_negative_index_alias_refuted",
            "C15_nonrecursive_parent_refuted", "C15_nonvacuous"]
MANIFEST = {
    "level": "proof",
    "technique": "Coq proof (generic induction over the runtime carrying a frame invariant + value-path frame laws) on hand models of is_read_only_path / the runtime + differential correspondence of acceptance and runs under read-only configurations",
    "text": "Closed Coq theorem: a program accepted under a read-only configuration leaves every recursive read-only path "
            "unchanged, for field-only paths and non-compacting deletions (PARTIAL: index segments are refuted - negative "
            "indices alias/renumber read-only elements -, non-recursive parents are refuted - writes below them are accepted "
            "by design -, compacting deletions are neither proved nor refuted); plus the underlying frame invariant for any "
            "program. The model's accept/reject is compared with the real compiler's read-only diagnostics under generated "
            "configurations, runs are compared with the model, and the oracle compares the values at the read-only paths "
            "before and after every accepted run.",
    "note": "Trusted: Coq kernel + vm_compute; hand models Model/ReadOnly.v, Model/Eval.v, Model/Info.v (tie = correspondence). "
            "|= (merge assignment) and event-root assignment are outside the generated fragment. No axioms.",
    "design_ref": "DESIGN.md section 5 C15",
}
IMPORTS15 = ("From Coq Require Import List ZArith String.\n"
             "From VRL Require Import Base.Bytes Base.Value Base.Lit Model.ValueCrud Model.Expr Model.Eval Model.EvalInst Model.Info Model.ReadOnly Corr.C15.\n"
             "Local Open Scope string_scope.")
RO_LABEL = "mutation of read-only value"
FIELDS = ["a", "b", "arr", "o"]


def rand_ro_path(rng, allow_index=True):
    p = [f(rng.choice(FIELDS))]
    for _ in range(rng.choice([0, 0, 1, 1, 2])):
        if allow_index and rng.random() < 0.3:
            p.append({"i": str(rng.randint(-2, 2))})
        else:
            p.append(f(rng.choice(["p", "q", "r"])))
    return p


def near(rng, p):
    """a path near p: p itself, a prefix, an extension, or a sibling"""
    c = rng.random()
    if c < 0.15:
        return list(p)
    if c < 0.3 and len(p) > 1:
        return p[:rng.randint(1, len(p) - 1)]
    if c < 0.5:
        return p + [f(rng.choice(["p", "q", "z"]))]
    if c < 0.85:
        q = list(p)
        k = rng.randrange(len(q))
        q[k] = f(rng.choice(["p", "q", "r", "a", "b", "zz"])) if rng.random() < 0.7 else {"i": str(rng.randint(-3, 3))}
        return q
    return rand_ro_path(rng)


def gen_targeted(run, n):
    rng = run.rng
    g = cv.Gen(rng)
    cases = []
    while len(cases) < n:
        fields_only = rng.random() < 0.6
        cfg = []
        for _ in range(rng.randint(1, 3)):
            cfg.append({"pfx": rng.choice(["event", "event", "meta"]), "path": rand_ro_path(rng, not fields_only), "recursive": rng.random() < 0.6})
        g.defined = []
        stmts = []
        for _ in range(rng.randint(1, 4)):
            r = rng.choice(cfg)
            q = near(rng, r["path"])
            if fields_only:
                q = [s for s in q if "f" in s] or [f("zz")]
            c = rng.random()
            if c < 0.5:
                stmts.append(("assign", ("text", r["pfx"], q), g.lit() if rng.random() < 0.7 else g.inf(1)))
            elif c < 0.75:
                stmts.append(("delext", r["pfx"], q, rng.random() < 0.35))     # compacting deletions are not covered by the theorem: the oracle judges them
            elif c < 0.9:
                # the read-only-near path is the ok target, the err target, or both (each is verified separately)
                tq = ("text", r["pfx"], q)
                other = rng.choice([("noop",), ("tvar", "okv", []), ("text", "event", [f("zz")])])
                call = ("call", "int", False, [g.equery()])
                c2 = rng.random()
                if c2 < 0.4:
                    stmts.append(("assigninf", tq, other, call, ji(0)))
                elif c2 < 0.85:
                    stmts.append(("assigninf", other, tq, call, ji(0)))
                else:
                    stmts.append(("assigninf", tq, ("text", r["pfx"], near(rng, r["path"]) if not fields_only else q + [f("e")]), call, ji(0)))
            else:
                stmts.append(g.stmt(1))
        stmts.append(lit(ji(1)))
        try:
            cv.vrl_program(stmts)
        except ValueError:
            continue
        ev = jo([("a", rng.choice([ji(5), jo([("p", ji(1)), ("q", jo([("r", ji(2))]))]), jo([])])),
                 ("b", rng.choice([js("s"), jo([("p", ja([ji(1), ji(2)]))])])),
                 ("arr", ja([ji(0), ji(1), jo([("p", ji(2))])][:rng.randint(0, 3)])),
                 ("o", jo([("p", jo([("q", ji(1))])), ("r", ji(3))]))] + [(k, ji(1)) for k in ["i", "s"]])
        meta = jo([("a", jo([("p", ji(1))])), ("m1", ji(5))])
        cases.append({"kind": "targeted", "ast": stmts, "event": ev, "meta": meta, "vars": cv.VARS + ["ev"],
                      "ro": cfg, "meta_info": {"ctx": ["fields-only" if fields_only else "with-index"]}})
    return cases


def harness_case(c):
    h = cv.harness_case(c)
    h["ro"] = [{"path": cv.vrl_query_ext(r["pfx"], r["path"]), "recursive": r["recursive"]} for r in c["ro"]]
    return h


def getp(v, p):
    for s in p:
        if v == "absent":
            return v
        if "f" in s:
            if not (isinstance(v, dict) and "o" in v):
                return "absent"
            d = {k: x for k, x in v["o"]}
            v = d.get(s["f"], "absent")
        else:
            if not (isinstance(v, dict) and "a" in v):
                return "absent"
            i = int(s["i"])
            a = v["a"]
            if i < 0:
                i += len(a)
            v = a[i] if 0 <= i < len(a) else "absent"
    return v


def coq_cfg(cfg):
    return "[%s]" % "; ".join("mkRo %s %s %s" % (cv.coq_pfx(r["pfx"]), coq_path(r["path"]), "true" if r["recursive"] else "false") for r in cfg)


def has_index(p):
    return any("i" in s for s in p)


def write_paths(ast):
    out = []

    def walk(e):
        if isinstance(e, tuple):
            if e and e[0] == "assign" and e[1][0] == "text":
                out.append((e[1][1], e[1][2], None))
            if e and e[0] == "assigninf":
                for t in (e[1], e[2]):
                    if t[0] == "text":
                        out.append((t[1], t[2], None))
            if e and e[0] == "delext":
                out.append((e[1], e[2], e[3]))
            for x in e:
                walk(x)
        elif isinstance(e, list):
            for x in e:
                walk(x)
    walk(ast)
    return out


def classify(case, r):
    """which known class (if any) explains a modification of read-only path r by this program"""
    ws = [w for w in write_paths(case["ast"]) if w[0] == r["pfx"]]
    if has_index(r["path"]) or any(has_index(w[1]) for w in ws):
        return "C15-index-alias"
    if not r["recursive"] and any(len(w[1]) > len(r["path"]) and w[1][:len(r["path"])] == r["path"] for w in ws):
        return "C15-nonrecursive-parent"
    if any(w[2] for w in ws):
        return "C15-compact"
    return None


def main(run, args):
    quick = run.tier == "quick"
    n = 1500 if quick else 12000
    pl = vlib.proof_leg(ID, THEOREMS)
    for pr in pl["problems"]:
        vlib.log("proof-leg problem:", pr["kind"], pr["detail"][:400])
    vlib.build_harness("prog")
    if args.replay:
        r = json.load(open(args.replay))
        cases = [r["case"]]
    else:
        import checklib
        cases = checklib.load_corpus(ID) + gen_targeted(run, n)
    outs = vlib.run_harness("prog", [harness_case(c) for c in cases])
    known = {k["id"]: k for k in vlib.known_findings(ID)}
    acc_terms, acc_idx, run_idx = [], [], []
    for i, (c, o) in enumerate(zip(cases, outs)):
        if o.get("compile") == "ok":
            acc_terms.append("mkRoCase %s %s true" % (coq_cfg(c["ro"]), cv.coq_exprs(c["ast"])))
            acc_idx.append(i)
            run_idx.append(i)
        elif o.get("compile") == "err" and any(l["message"] == RO_LABEL for d in o["diags"] for l in d["labels"]):
            acc_terms.append("mkRoCase %s %s false" % (coq_cfg(c["ro"]), cv.coq_exprs(c["ast"])))
            acc_idx.append(i)
    bad_acc, err = vlib.run_model_checks(ID, IMPORTS15, acc_terms, check="check", tag="acc")
    bad_acc = [acc_idx[b] for b in bad_acc]
    # runs of accepted programs vs the model
    rterms, rkeep = [], []
    for i in run_idx:
        try:
            rterms.append(cv.to_coq(cases[i], outs[i]))
            rkeep.append(i)
        except Exception:
            pass
    bad_run, err2 = vlib.run_model_checks(ID, cv.IMPORTS, rterms, check="check", shard=150, tag="core")
    bad_run = [rkeep[b] for b in bad_run]
    # oracle: read-only values before == after
    viol = 0
    judged = 0
    for i in run_idx:
        c, o = cases[i], outs[i]
        judged += 1
        for r in c["ro"]:
            before = getp(c["event"] if r["pfx"] == "event" else c["meta"], r["path"])
            after = getp(o["event"] if r["pfx"] == "event" else o["meta"], r["path"])
            if before != after:
                cls = classify(c, r)
                if cls in known:
                    run.known(cls, known[cls]["what"])
                    continue
                if viol < 3:
                    viol += 1
                    run.violation({"kind": "property fails on the implementation",
                                   "why": "read-only path %s (recursive=%s) held %r before the accepted program ran and %r after" % (
                                       cv.vrl_query_ext(r["pfx"], r["path"]), r["recursive"], before, after),
                                   "source": cv.vrl_program(c["ast"]), "case": c, "impl": {"event": o["event"], "meta": o["meta"]},
                                   "classified_as": cls})
    if args.replay:
        print(json.dumps({"source": cv.vrl_program(cases[0]["ast"]), "compile": outs[0].get("compile"), "acceptance_agrees": not bad_acc,
                          "run_agrees": not bad_run, "violations": len(run.violations)}))
        if bad_acc or bad_run or run.violations:
            print("VIOLATION property=%s replay=%s" % (ID, args.replay))
            return 1
        return 0
    if (bad_acc or bad_run) and not run.violations:
        i = (bad_acc or bad_run)[0]
        what = "acceptance under the read-only configuration" if bad_acc else "run of an accepted program"
        run.violation({"kind": "correspondence broken: model and implementation disagree on the %s" % what,
                       "correspondence_suite": "C15/prog", "source": cv.vrl_program(cases[i]["ast"]), "case": cases[i],
                       "impl": {k: outs[i].get(k) for k in ("compile", "result", "event", "meta")},
                       "impl_diags": [d["message"] for d in outs[i].get("diags", [])],
                       "theorems_about_model": THEOREMS, "searched": "%d accepted runs judged by the oracle" % judged}, nofail=True)
    if (err or err2) and not run.violations:
        run.violation({"kind": "model evaluation failed", "detail": err or err2}, nofail=True)
    if pl["problems"] and not any(not nf for _, nf in run.violations):
        run.violation({"kind": "proof obligation no longer checks", "theorems": THEOREMS, "problems": pl["problems"][:10]}, nofail=True)
    rejected = sum(1 for i in acc_idx if outs[i].get("compile") == "err")
    cov = {"obligations": pl["obligations"], "discharged": pl["discharged"],
           "checker_cmd": "make -C coq Properties/C15.vo + Print Assumptions + pinned statements",
           "trusted_base": ["Coq 8.16.1 kernel incl. vm_compute", "hand models Model/ReadOnly.v, Model/Eval.v, Model/Info.v", "Rust harness prog", "Python generator/renderers"],
           "axioms": pl.get("axioms", {}), "evaluations": len(cases),
           "distinct_nontrivial": len({cv.vrl_program(cases[i]["ast"]) + json.dumps(cases[i]["ro"]) for i in acc_idx}),
           "rule": "1-3 read-only paths (event/metadata, recursive or not, field and +-index segments) x programs writing/deleting near them; non-trivial = accepted or rejected for read-only reasons; seed %d" % run.seed,
           "accepted": len(run_idx), "rejected_read_only": rejected, "acceptance_disagreements": len(bad_acc),
           "run_disagreements": len(bad_run), "accepted_runs_judged": judged, "traces_validated_against_impl": len(rkeep),
           "known_finding_hits": sorted(run.known_hits),
           "samples": [{"source": cv.vrl_program(cases[i]["ast"]), "ro": cases[i]["ro"], "compile": outs[i].get("compile")} for i in acc_idx[:3]]}
    return run.finish(cov)
