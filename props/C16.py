"""C16 — reported target queries and assignments are complete."""
import corevrl as cv
from corevrl import lit, ev_field, set_field, mark, f
from vlib import ji, js, jo, ja

ID = "C16"
THEOREMS = ["C16_operations_reported", "C16_expression_operations_reported", "C16_example"]
MANIFEST = {
    "level": "proof",
    "technique": "Coq proof by induction over expressions (nested induction principle) on a hand model of the runtime with a Target-operation log + set comparison of the modelled report with Program::info() + a logging Target on the implementation",
    "text": "Closed Coq theorem (all function/operator semantics, states, fault schedules): every Target read/removal performed "
            "by a run is at a path in the model's target_queries, every write at a path in target_assignments. The model of "
            "the report is compared (as sets) with Program::info() of every compiled program, and the model's operation log "
            "with the log of a wrapping Target; the oracle checks coverage (equal/ancestor/descendant) of the real log by the real report.",
    "note": "Trusted: Coq kernel + vm_compute; hand models Model/Eval.v, Model/Info.v (tie = correspondence). Deletion via del "
            "is classed with reads (its argument is compiled as a query; ProgramInfo records no deletions). Not modelled: "
            "get/set/remove dynamic-path functions, unnest, |= (merge assignment) - programs using them are outside the "
            "generated fragment. No axioms.",
    "design_ref": "DESIGN.md section 5 C16",
}


def gen_targeted(run, n):
    rng = run.rng
    g = cv.Gen(rng)
    cases = []
    while len(cases) < n:
        g.defined = []
        stmts = []
        for _ in range(rng.randint(2, 6)):
            c = rng.random()
            p = [f(rng.choice(["a", "b", "i", "o", "l"]))] + g.path(2)
            if c < 0.25:
                stmts.append(("assign", ("text", rng.choice(["event", "event", "meta"]), p), g.inf(2)))
            elif c < 0.45:
                stmts.append(("delext", rng.choice(["event", "event", "meta"]), p, rng.random() < 0.5))
            elif c < 0.6:
                stmts.append(("if", [("existsext", "event", p)], [("assign", ("text", "event", p + [f("q")]), lit(ji(1)))], None))
            elif c < 0.75:
                stmts.append(("closure", "for_each", ("op", "err", ("call", "object", False, [ev_field("o")]), lit(jo([("p", ji(1))]))),
                              ["k", "v"], [("assign", ("text", "event", [f("seen")] + g.path(1)), ("var", "v")), lit(None)]))
            elif c < 0.9:
                stmts.append(("assigninf", ("text", "event", p), ("text", "meta", [f("e2")]), ("call", "int", False, [g.equery()]), ji(0)))
            else:
                stmts.append(g.stmt(2))
        stmts.append(("qext", "event", []))
        try:
            cv.vrl_program(stmts)
        except ValueError:
            continue
        cases.append({"kind": "targeted", "ast": stmts, "event": cv.rand_event(rng), "meta": jo([("m1", ji(5))]),
                      "vars": cv.VARS + cv.CLOSURE_PARAMS + ["ev"], "meta_info": {"ctx": ["target-ops"]}})
    return cases


def covered(op, reported):
    p = op["path"]
    for r in reported:
        if r["pfx"] != op["pfx"]:
            continue
        q = r["path"]
        m = min(len(p), len(q))
        if p[:m] == q[:m]:
            return True
    return False


def oracle(case, out):
    info = out["info"]
    for op in out.get("log", []):
        rep = info["assignments"] if op["op"] == "ins" else info["queries"]
        if not covered(op, rep):
            return "target operation %s %s %r is not covered by the reported %s %r" % (
                op["op"], op["pfx"], op["path"], "assignments" if op["op"] == "ins" else "queries", [r["text"] for r in rep])
    return None


def main(run, args):
    return cv.standard_main(run, ID, THEOREMS, MANIFEST, gen_targeted, oracle, args)
