"""C32 — Grok rules match and capture faithfully."""
import vlib
from vlib import coq_value, coq_hex, ji, js, jo, ja

ID = "C32"
THEOREMS = ["C32_literal", "C32_literal_exec", "C32_rule", "C32_rule_exec", "C32_captures", "C32_cycle_fuel",
            "C32_cycle_rejected", "C32_cycle_two", "C32_filters", "C32_example"]
IMPORTS = ("From Coq Require Import List ZArith String.\n"
           "From VRL Require Import Base.Bytes Base.Value Base.Lit Model.Grok Corr.C32.\n"
           "Local Open Scope string_scope.")
MANIFEST = {
    "level": "proof",
    "technique": "Coq model of the grok rule pipeline (pattern scanner, %{..} grammar, alias resolution with the alias stack, "
                 "backtracking matcher with Oniguruma's priorities, filters, field insertion) on a fragment + proofs + "
                 "differential correspondence with parse_grok_rules/parse_grok",
    "text": "Proved (closed): for every byte string s the rule text esc(s) (ASCII punctuation written \\c) compiles to the literal "
            "pieces of s and matches t iff t = s (escaping is complete, including %{ and every regex metacharacter); the "
            "executable matcher finds a match iff the text splits into consecutive parts matching the rule's pieces in order "
            "(soundness and completeness), and the captures it returns are exactly the parts matched by the named groups of such a "
            "split; alias expansion never runs out of fuel (the alias stack holds distinct alias names) and a reference to an "
            "alias on the stack is rejected with the circular-dependency error naming the stack's first entry. The model is "
            "compared with the implementation on generated rule sets (literals over all ASCII punctuation, word / integer / "
            "notSpace / data, aliases incl. cyclic ones, filters) and inputs built from the rule and perturbed.",
    "note": "Partial: Oniguruma is not modelled beyond the fragment (literal characters, the four core patterns, groups), nor "
            "the rest of the pattern library, regex/date/boolean matchers, array/keyvalue/json filters, non-ASCII case mapping; "
            "number/scale only on short integer texts. Rule text is a regular expression by design: `a.c` matches `abc`; the "
            "literal theorem is about the escaped text a user must write. Two panics found on the way (scale on NaN, nullIf()) "
            "were repaired in /repo (d903663, 380c0c2) and are kept as regression cases. Trusted: Coq kernel + vm_compute, hand model Model/Grok.v (tied by "
            "correspondence), Rust harness, Python generator and its independent expectation. No axioms.",
    "design_ref": "DESIGN.md section 5 C32",
}

PUNCT = [chr(c) for c in range(33, 127) if not chr(c).isalnum()]
TEXTSET_EXTRA = "_./:"          # may occur inside captured texts (besides alphanumerics and a leading sign)
LITSET = [c for c in PUNCT if c not in "_./:+-"] + [" "]
FIELDS = [["f"], ["g"], ["h", "x"], ["h", "y"], ["n"], ["k"]]
I64 = (-2**63, 2**63 - 1)


def esc(s):
    return "".join("\\" + c if c in PUNCT else c for c in s)


def h(s):
    return s.encode("utf-8").hex()


# ------------------------------------------------------------------ rule trees

def fmt_filter(f):
    if f is None:
        return ""
    if f[0] == "scale":
        return ":scale(%d)" % f[1]
    if f[0] == "nullIf":
        return ':nullIf("%s")' % f[1]
    return ":" + f[0]


def fmt_node(n):
    if n[0] == "lit":
        return esc(n[1])
    name, dest = n[1], n[2]
    if dest is None:
        return "%%{%s}" % name
    return "%%{%s:%s%s}" % (name, ".".join(dest[0]), fmt_filter(dest[1]))


def fmt_rule(nodes):
    return "".join(fmt_node(n) for n in nodes)


class RuleGen:
    def __init__(self, rng):
        self.rng = rng
        self.aliases = {}       # name -> nodes

    def dest(self, kind):
        r = self.rng
        if r.random() < 0.3:
            return None
        c = r.random()
        flt = None
        if c < 0.45:
            flt = None
        elif kind == "integer" and c < 0.7:
            flt = ("scale", r.choice([1, 2, 10, 1000, 0]))
        elif c < 0.6:
            flt = ("lowercase",)
        elif c < 0.72:
            flt = ("uppercase",)
        elif c < 0.82:
            flt = ("nullIf", r.choice(["-", "ab", "0", "x"]))
        elif c < 0.9:
            flt = ("number",)
        elif c < 0.96:
            flt = ("integer",)
        else:
            flt = ("scale", r.choice([2, 10]))
        return (r.choice(FIELDS), flt)

    def lit(self):
        r = self.rng
        return ("lit", "".join(r.choice(LITSET) for _ in range(r.randint(1, 3))))

    def pattern(self, depth):
        r = self.rng
        c = r.random()
        if depth > 0 and c < 0.25:
            name = "al%d" % len(self.aliases)
            self.aliases[name] = None            # reserved: not referable while its body is being generated
            self.aliases[name] = self.nodes(depth - 1, r.randint(1, 2))
            return ("alias", name, self.dest("alias"))
        done = sorted(k for k, v in self.aliases.items() if v is not None)
        if done and c < 0.32:
            return ("alias", r.choice(done), self.dest("alias"))
        kind = r.choice(["word", "integer", "notSpace", "data", "word", "integer"])
        return ("lib", kind, self.dest(kind))

    def nodes(self, depth, npat):
        r = self.rng
        out = []
        if r.random() < 0.4:
            out.append(self.lit())
        for i in range(npat):
            if i > 0:
                out.append(self.lit())
            out.append(self.pattern(depth))
        if r.random() < 0.4:
            out.append(self.lit())
        return out

    def text_for(self, kind):
        r = self.rng
        alnum = "abcxyzABZ019"
        if kind == "word":
            return "".join(r.choice(alnum + "_") for _ in range(r.randint(1, 5)))
        if kind == "integer":
            c = r.random()
            if c < 0.08:
                return r.choice(["9223372036854775807", "-9223372036854775808", "9223372036854775808", "00012", "+0", "-0"])
            return r.choice(["", "", "+", "-"]) + "".join(r.choice("0123456789") for _ in range(r.randint(1, 6)))
        if kind == "notSpace":
            if r.random() < 0.05:
                return r.choice(["NaN", "nan", "inf", "-inf", "1e400", "infinity"])
            return "".join(r.choice(alnum + TEXTSET_EXTRA + "+-") for _ in range(r.randint(1, 6)))
        return "".join(r.choice(alnum + TEXTSET_EXTRA + "+-") for _ in range(r.randint(0, 5)))   # data

    def instantiate(self, nodes, caps):
        """text matched by the nodes; caps gets (field path, filters, text) in registration order"""
        out = []
        for n in nodes:
            if n[0] == "lit":
                out.append(n[1])
                continue
            slot = None
            if n[2] is not None:
                slot = len(caps)
                caps.append(None)
            if n[0] == "lib":
                t = self.text_for(n[1])
                flt = n[2][1] if n[2] is not None else None
                if flt is not None and flt[0] == "nullIf" and n[1] != "integer":
                    # texts equal to / extending / one short of the null value
                    v = flt[1]
                    fits = n[1] in ("notSpace", "data") or all(ch.isalnum() or ch == "_" for ch in v)
                    c = self.rng.random()
                    if fits and c < 0.3:
                        t = v
                    elif fits and c < 0.6:
                        t = v + self.rng.choice(["a", "0", "_", v])
                    elif fits and c < 0.7 and len(v) > 1:
                        t = v[:-1]
                implicit = [("integer",)] if n[1] == "integer" else []
            else:
                t = self.instantiate(self.aliases[n[1]], caps)
                implicit = []
            if slot is not None:
                fl = implicit + ([n[2][1]] if n[2][1] is not None else [])
                caps[slot] = (n[2][0], fl, t)
            out.append(t)
        return "".join(out)


def int_like(t):
    b = t[1:] if t[:1] in "+-" else t
    return b.isdigit() and len(t) <= 15


def not_float(t):
    """certainly rejected by str::parse::<f64>: a character no float literal contains, and not inf / nan"""
    b = t[1:] if t[:1] in "+-" else t
    return any(c not in "0123456789+-.eE" for c in t) and b.lower() not in ("inf", "infinity", "nan")


def apply_filters(text, filters):
    """('val', v) | ('drop',) | ('unknown',) - the independent expectation for the modelled fragment"""
    v = text
    for f in filters:
        k = f[0]
        if k == "integer":
            if not isinstance(v, str):
                return ("drop",)
            b = v[1:] if v[:1] in "+-" else v
            if not b.isdigit():
                return ("drop",)
            z = int(v)
            if not (I64[0] <= z <= I64[1]):
                return ("drop",)
            v = z
        elif k == "number":
            if not isinstance(v, str):
                return ("drop",)
            if not_float(v):
                return ("drop",)
            if not int_like(v):
                return ("unknown",)
            v = int(v)
        elif k == "scale":
            if isinstance(v, str):
                if not_float(v):
                    return ("drop",)
                b = (v[1:] if v[:1] in "+-" else v).lower()
                if b == "nan" or (b in ("inf", "infinity") and f[1] == 0):
                    return ("drop",)          # the product is NaN: the filter fails (it used to panic)
                if not int_like(v):
                    return ("unknown",)
                v = int(v)
            if abs(v) > 2**53 or abs(v * f[1]) > 2**53:
                return ("unknown",)
            v = v * f[1]
        elif k in ("lowercase", "uppercase"):
            if not isinstance(v, str):
                return ("drop",)
            v = v.lower() if k == "lowercase" else v.upper()
        elif k == "nullIf":
            if not isinstance(v, str):
                return ("drop",)
            if v == f[1]:
                return ("drop",)
    return ("val", v)


def jval(v):
    return ji(v) if isinstance(v, int) else js(v)


def obj_get(o, path):
    for k in path:
        if not isinstance(o, dict) or k not in o:
            return None
        o = o[k]
    return o


def obj_set(o, path, v):
    for k in path[:-1]:
        o = o.setdefault(k, {})
    o[path[-1]] = v


def to_vjson(o):
    if isinstance(o, dict):
        return jo([(k, to_vjson(v)) for k, v in o.items()])
    if isinstance(o, list):
        return ja([to_vjson(x) for x in o])
    return jval(o)


def expected_object(caps):
    order = sorted(range(len(caps)), key=lambda i: "grok%d" % i)
    out = {}
    for i in order:
        path, filters, text = caps[i]
        if text == "":
            continue
        r = apply_filters(text, filters)
        if r[0] == "unknown":
            return None
        if r[0] == "drop":
            continue
        cur = obj_get(out, path)
        if isinstance(cur, list):
            cur.append(r[1])
        elif cur is not None:
            obj_set(out, path, [cur, r[1]])
        else:
            obj_set(out, path, r[1])
    return to_vjson(out)


def perturb(rng, t):
    if not t:
        return "x"
    i = rng.randrange(len(t))
    c = rng.random()
    if c < 0.3:
        return t[:i] + t[i + 1:]
    if c < 0.6:
        return t[:i] + rng.choice("aZ0 _.-+%{}\\\"") + t[i + 1:]
    if c < 0.8:
        return t[:i] + t[i] + t[i:]
    return t + rng.choice(["", " ", "x", "\n"]) if rng.random() < 0.5 else rng.choice([" ", "x"]) + t


# ------------------------------------------------------------------ case streams

def literal_cases(rng, n):
    pool = PUNCT * 3 + list("abzAZ09 ") + ["é", "\t"]
    out = []
    for _ in range(n):
        s = "".join(rng.choice(pool) for _ in range(rng.randint(1, 7)))
        c = rng.random()
        if c < 0.4:
            t = s
        elif c < 0.8:
            t = perturb(rng, s)
        elif c < 0.9:
            # the classic confusions: a metacharacter read as an operator
            t = s.replace(".", "x", 1).replace("*", "", 1).replace("?", "", 1).replace("+", "", 1)
        else:
            t = s + s[-1]
        out.append({"kind": "literal", "patterns": [h(esc(s))], "aliases": [], "input": h(t), "expect": ["matchiff", t == s],
                    "lit": h(s), "vrl": rng.random() < 0.3})
    return out


def rule_cases(rng, n):
    out = []
    for _ in range(n):
        g = RuleGen(rng)
        nodes = g.nodes(rng.choice([0, 1, 1, 2]), rng.randint(1, 4))
        caps = []
        t = g.instantiate(nodes, caps)
        rule = fmt_rule(nodes)
        aliases = [[h(k), h(fmt_rule(v))] for k, v in sorted(g.aliases.items())]
        exp = expected_object(caps)
        c = rng.random()
        if c < 0.7:
            expect = ["object", exp] if exp is not None else ["none"]
            out.append({"kind": "rule", "patterns": [h(rule)], "aliases": aliases, "input": h(t), "expect": expect,
                        "vrl": rng.random() < 0.3})
        elif c < 0.9:
            out.append({"kind": "rule-perturbed", "patterns": [h(rule)], "aliases": aliases, "input": h(perturb(rng, t)),
                        "expect": ["none"]})
        else:
            # two rules: the first cannot match (it demands an extra literal), the second is the real one
            first = rule + esc("#!")
            expect = ["object", exp] if exp is not None else ["none"]
            out.append({"kind": "rule-second", "patterns": [h(first), h(""), h(rule)], "aliases": aliases, "input": h(t),
                        "expect": expect})
    return out


def cycle_cases(rng, n):
    out = []
    names = ["a", "b", "c", "dd", "e_1"]
    for _ in range(n):
        k = rng.randint(1, 4)
        ns = rng.sample(names, k)
        cyclic = rng.random() < 0.7
        defs = {}
        for i, nm in enumerate(ns):
            if i + 1 < k:
                body = "%%{%s}" % ns[i + 1]
            elif cyclic:
                body = "%%{%s}" % rng.choice(ns)
            else:
                body = "%{word}"
            pre = rng.choice(["", "x", esc("["), "%{integer:n} "])
            post = rng.choice(["", esc("]"), " %{word:w}"])
            defs[nm] = pre + body + post
        # an unrelated alias, possibly self-referential but never referenced
        if rng.random() < 0.3:
            defs["zz"] = "%{zz}"
        dest = rng.choice(["", ":f", ":f:lowercase"])
        rule = esc(rng.choice(["", "v="])) + "%%{%s%s}" % (ns[0], dest)
        out.append({"kind": "cycle" if cyclic else "acyclic", "patterns": [h(rule)],
                    "aliases": [[h(a), h(d)] for a, d in sorted(defs.items())],
                    "input": h(rng.choice(["x", "[x]", "1 ab", "v=12 ab cd"])),
                    "expect": ["circular"] if cyclic else ["compiles"], "vrl": rng.random() < 0.2})
    return out


def ambiguous_cases(rng, n):
    """patterns next to each other or separated by characters they can also match: only the engine's priorities
    (greedy / lazy, leftmost) decide the captures - judged by the model, no independent expectation"""
    out = []
    for _ in range(n):
        parts = []
        for i in range(rng.randint(2, 4)):
            kind = rng.choice(["word", "integer", "notSpace", "data", "data"])
            fld = rng.choice(["a", "b", "c", "d"])
            parts.append("%%{%s:%s}" % (kind, fld) if rng.random() < 0.85 else "%%{%s}" % kind)
            if rng.random() < 0.5:
                parts.append(esc(rng.choice([" ", "-", ".", "1", "a", "_", "+"])))
        t = "".join(rng.choice("a1 _-+.Z") for _ in range(rng.randint(0, 7)))
        out.append({"kind": "ambiguous", "patterns": [h("".join(parts))], "aliases": [], "input": h(t), "expect": ["none"]})
    return out


def regex_cases(rng, n):
    """the regex("...") matcher, with and without a destination, with a top-level alternation and / or directly followed by
    a quantifier, next to capturing patterns.  The matcher is one unit of the anchored rule: the expectation is computed
    with Python's re on the reference expression \\A ... \\z in which a destination-less matcher is (?:E)."""
    import re
    out = []
    ref = {"data": ".*?", "notSpace": r"\S+", "word": r"\b\w+\b"}
    while len(out) < n:
        nalt = rng.choice([1, 2, 2, 3])
        branches = ["".join(rng.choice("abGETPOS01") for _ in range(rng.randint(1, 3))) for _ in range(nalt)]
        if rng.random() < 0.25:
            branches = rng.choice([["GET", "POST"], ["a", "b"], ["ab"], ["a", "ab"], ["ab", "a"]])
        expr = "|".join(branches)
        quant = rng.choice(["", "", "+", "?", "*"])
        with_dest = rng.random() < 0.2
        parts, refparts, fields = [], [], []

        def cap(kind):
            name = "f%d" % len(fields)
            fields.append(name)
            parts.append("%%{%s:%s}" % (kind, name))
            refparts.append("(?P<%s>%s)" % (name, ref[kind]))

        def rx():
            if with_dest:
                name = "f%d" % len(fields)
                fields.append(name)
                parts.append('%%{regex("%s"):%s}' % (expr, name))
                refparts.append("(?P<%s>%s)" % (name, expr))
            else:
                parts.append('%%{regex("%s")}%s' % (expr, quant))
                refparts.append("(?:%s)%s" % (expr, quant))

        def sep():
            c = rng.choice([" ", " ", "-", ":", "/"])
            parts.append(esc(c))
            refparts.append(re.escape(c))

        shape = rng.random()
        if shape < 0.5:
            rx(); sep(); cap(rng.choice(["data", "data", "notSpace", "word"]))
        elif shape < 0.7:
            cap(rng.choice(["data", "notSpace", "word"])); sep(); rx()
        elif shape < 0.85:
            rx()
        else:
            cap("word"); sep(); rx(); sep(); cap("data")
        rule = "".join(parts)
        reference = re.compile("".join(refparts), re.DOTALL)
        # inputs: built from the branches, and near misses
        pieces = []
        for prt in parts:
            if prt.startswith("%{regex"):
                reps = 1 if (with_dest or quant == "") else rng.choice([0, 1, 2, 3])
                pieces.append("".join(rng.choice(branches) for _ in range(reps)))
            elif prt.startswith("%{"):
                pieces.append("".join(rng.choice("abTY/x1") for _ in range(rng.randint(0, 4))))
            else:
                pieces.append(prt[-1])
        t = "".join(pieces)
        c = rng.random()
        if c < 0.35:
            t = perturb(rng, t)
        elif c < 0.5:
            t = t + rng.choice(["TY", "c", "b", " x"])
        elif c < 0.6:
            t = rng.choice(["ab", "b", "x "]) + t
        m = reference.fullmatch(t)
        if m is None:
            expect = ["matchiff", False]
        else:
            expect = ["object", to_vjson({k: v for k, v in m.groupdict().items() if v})]
        out.append({"kind": "regex", "patterns": [h(rule)], "aliases": [], "input": h(t), "expect": expect,
                    "vrl": rng.random() < 0.2})
    return out


def malformed_cases(rng, n):
    atoms = ["%{", "}", ":", ".", "\"", "(", ")", "\\", "word", "integer", "data", "notSpace", "f", "g", "scale", "nullIf",
             "number", "lowercase", "2", "0", " ", "a", "-", "%", "{", "al0", "true", "null", ",", "[", "]", "*", "+", "?", "|"]
    out = []
    for _ in range(n):
        rule = "".join(rng.choice(atoms) for _ in range(rng.randint(1, 9)))
        if rng.random() < 0.5:
            rule = "%{" + rule + "}"
        al = [[h("al0"), h("".join(rng.choice(atoms) for _ in range(rng.randint(1, 5))))]] if rng.random() < 0.3 else []
        out.append({"kind": "malformed", "patterns": [h(rule)], "aliases": al, "input": h(rng.choice(["a", "12", "a b", "NaN", ""])),
                    "expect": ["none"]})
    return out


def sig(c):
    import hashlib
    return hashlib.sha1(repr((c["patterns"], c["aliases"], c["input"], c["expect"])).encode()).hexdigest()[:12]


def gen_cases(run, n):
    rng = run.rng
    cases = _gen_cases(rng, n)
    for c in cases:
        c["sig"] = sig(c)      # the expectation belongs to exactly this rule set and input (a shrunk case loses it)
    return cases


def _gen_cases(rng, n):
    return (literal_cases(rng, n * 25 // 100) + rule_cases(rng, n * 30 // 100) + ambiguous_cases(rng, n * 12 // 100)
            + regex_cases(rng, n * 10 // 100) + cycle_cases(rng, n // 10) + malformed_cases(rng, n * 13 // 100))


# ------------------------------------------------------------------ rendering

def coq_expect(e):
    if e[0] == "none":
        return "XNone"
    if e[0] == "matchiff":
        return "(XMatchIff %s)" % ("true" if e[1] else "false")
    if e[0] == "object":
        return "(XObject %s)" % coq_value(e[1])
    if e[0] == "circular":
        return "XCircular"
    if e[0] == "compiles":
        return "XCompiles"
    if e[0] == "invalidargs":
        return "XInvalidArgs"
    raise ValueError(e)


def coq_out(o):
    if o.get("compile") == "err":
        c = o["err"]["class"]
        if c == "circular":
            return "(ICircular %s)" % coq_hex(o["err"]["name"])
        return {"unknown_filter": "IUnknownFilter", "invalid_args": "IInvalidArgs", "invalid_expr": "IInvalidExpr"}[c]
    r = o["result"]
    if r == "nomatch":
        return "INoMatch"
    if r == "engine_error":
        raise ValueError("regex engine error")
    return "(IOk %s)" % coq_value(r["ok"])


def vrl_consistent(o):
    """the same call through the VRL function parse_groks gives the same answer"""
    v = o.get("vrl")
    if v in (None, "skipped"):
        return True
    if o.get("compile") == "err":
        return "compile_error" in v
    r = o["result"]
    if r == "nomatch":
        return "error" in v and "does not match any rule" in v["error"]
    if isinstance(r, dict) and "ok" in r:
        return v.get("ok") == r["ok"]
    return True


def to_coq(case, out):
    if out.get("bad_case"):
        return "mkCase [] [] [] INoMatch XNone"
    if not vrl_consistent(out):
        raise ValueError("parse_groks (VRL) and parse_grok (API) disagree: %r" % (out,))
    return "mkCase [%s] [%s] %s %s %s" % (
        "; ".join("(%s, %s)" % (coq_hex(k), coq_hex(v)) for k, v in case["aliases"]),
        "; ".join(coq_hex(p) for p in case["patterns"]), coq_hex(case["input"]), coq_out(out),
        coq_expect(case["expect"] if case.get("sig") == sig(case) else ["none"]))


def known_matcher(entry, case, out):
    cls = entry["match"]["class"]
    msg = out.get("panic", "") if isinstance(out, dict) else ""
    texts = [bytes.fromhex(p).decode("utf-8", "replace") for p in case["patterns"]] + \
            [bytes.fromhex(v).decode("utf-8", "replace") for _, v in case["aliases"]]
    if cls == "scale-nan":
        return "NaN" in msg and any("scale(" in t for t in texts)
    if cls == "nullif-empty-args":
        return "index out of bounds" in msg and any("nullIf()" in t for t in texts)
    return False


def nontrivial(c):
    return c.get("kind") != "malformed"


def extra_cov(cases, outs):
    kinds = {}
    outcome = {}
    for c, o in zip(cases, outs):
        kinds[c["kind"]] = kinds.get(c["kind"], 0) + 1
        if isinstance(o, dict):
            k = "panic" if "panic" in o else ("compile-" + o["err"]["class"] if o.get("compile") == "err" else
                                              (o["result"] if isinstance(o.get("result"), str) else "match"))
            outcome[k] = outcome.get(k, 0) + 1
    return {"kinds": kinds, "implementation_outcomes": outcome,
            "through_vrl_function": sum(1 for o in outs if isinstance(o, dict) and o.get("vrl") not in (None, "skipped"))}


def main(run, args):
    import checklib
    n = args.cases or (2000 if run.tier == "quick" else 40000)
    return checklib.standard(run, ID, THEOREMS, IMPORTS, "grok", gen_cases, to_coq, n, nontrivial=nontrivial,
                             replay=args.replay, known_matcher=known_matcher, extra_cov=extra_cov)
