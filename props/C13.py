"""C13 — closure parameters are scoped to the closure."""
import corevrl as cv
from corevrl import lit, ev_field, set_field, mark
from vlib import ji, js, jo, ja

ID = "C13"
THEOREMS = ["C13_closure_params_restored", "C13_closure_call_params_restored", "C13_example"]
MANIFEST = {
    "level": "proof",
    "technique": "Coq proof (induction over the iteration loop) on a hand model of closure::Runner + differential correspondence on compiled VRL programs incl. the variable store",
    "text": "Closed Coq theorem: for every closure-taking function, collection, body (arbitrary: may assign the parameters, "
            "fail, return, abort) and outcome of the call, every variable named like a bound parameter holds afterwards "
            "what it held before (value or unset). Correspondence compares compiled programs incl. the final variable "
            "store (read through RuntimeState::variable); the oracle plants outer variables named like the parameters, "
            "makes the closure fail/return/abort at iteration k, handles the error, and reads the variables back.",
    "note": "Trusted: Coq kernel + vm_compute; hand model Model/Eval.v mirrors closure.rs after the fix: commit in "
            "known_findings/C13.json (tie = correspondence); hypothesis of the theorem: the two parameters have different "
            "names. replace_with not modelled (oracle only). No axioms.",
    "design_ref": "DESIGN.md section 5 C13",
}


def gen_targeted(run, n):
    rng = run.rng
    cases = []
    for _ in range(n):
        fn = rng.choice(["map_values", "map_keys", "filter", "for_each"])
        params = {"map_values": ["v"], "map_keys": ["k"], "filter": ["k", "v"], "for_each": ["k", "v"]}[fn]
        vals = [rng.choice([1, 2, 3, "bad"]) for _ in range(rng.randint(1, 4))]
        isobj = fn == "map_keys" or rng.random() < 0.5
        coll = jo([(k, ji(v) if v != "bad" else js("bad")) for k, v in zip("abcd", vals)]) if isobj else ja([ji(v) if v != "bad" else js("bad") for v in vals])
        outer = {}
        pre = []
        keys_used = list("abcd")[:len(vals)]
        # values a parameter will be bound to in some iteration (a coincidence with the outer value must not matter)
        bound = [js(k) for k in keys_used] + [ji(i) for i in range(len(vals))] + [ji(v) if v != "bad" else js("bad") for v in vals]
        for p in params:
            if rng.random() < 0.6:
                outer[p] = rng.choice([js("outer"), ji(77), None, ja([ji(1)])] + bound)
                pre.append(("assign", ("tvar", p, []), lit(outer[p])))
        mode = rng.choice(["fail", "ok", "assign_param", "return", "abort"])
        body = []
        if mode == "assign_param":
            body.append(("assign", ("tvar", params[-1], []), lit(js("clobbered"))))
        trig = js(rng.choice(keys_used)) if fn == "map_keys" else ji(rng.choice([1, 2, 3]))
        if mode == "return":
            body.append(("if", [("op", "eq", ("var", params[-1]), lit(trig))], [("return", lit(True) if fn == "filter" else lit(js("rk")))], None))
        if mode == "abort":
            body.append(("if", [("op", "eq", ("var", params[-1]), lit(trig))], [("abort", lit(js("ab")))], None))
        # the body fails when it meets "bad" (fail mode: via int(...) on the element / key)
        probe = ("call", "int", False, [("var", params[-1])]) if fn != "map_keys" else ("call", "int", False, [ev_field("s")])
        if mode == "fail":
            body.append(("assign", ("tvar", "tmpv", []), probe))
        last = {"map_values": ("var", "v"), "map_keys": ("var", "k"), "filter": lit(True), "for_each": lit(None)}[fn]
        body.append(last)
        call = ("closure", fn, lit(coll), params, body)
        if mode == "fail":
            stmt = ("assign", ("tvar", "r", []), ("op", "err", call, lit(None))) if rng.random() < 0.5 else \
                ("assigninf", ("tvar", "r", []), ("tvar", "e", []), call, jo([]) if isobj or fn == "for_each" else ja([]))
        else:
            stmt = ("assign", ("tvar", "r", []), call)
        prog = pre + [stmt, mark("after"), lit(ji(1))]
        cases.append({"kind": "targeted", "ast": prog, "event": jo(cv.BASE_EVENT), "meta": jo([]),
                      "vars": ["r", "e", "k", "v", "tmpv"], "expect": {"outer": outer, "params": params, "mode": mode},
                      "meta_info": {"ctx": [fn + ":" + mode]}})
    return cases


def oracle(case, out):
    exp = case["expect"]
    for p in exp["params"]:
        got = out["vars"].get(p)
        want = {"some": exp["outer"][p]} if p in exp["outer"] else "none"
        if got != want:
            return "variable `%s` named like a closure parameter holds %r after the call, held %r before (mode %s, outcome %r)" % (
                p, got, want, exp["mode"], out["result"])
    return None


def main(run, args):
    return cv.standard_main(run, ID, THEOREMS, MANIFEST, gen_targeted, oracle, args)
