"""C05 — stdlib calls terminate promptly."""
import json

import stdcommon as sc
import vlib
from vlib import coq_value, ji, js, jo, ja

ID = "C05"
THEOREMS = ["C05_format_number_padding_bounded", "C05_format_number_negative_scale_former_hang", "C05_zip_terminates", "C05_zip_collect_diverges_without_arrays", "C05_zip_all_terminates", "C05_example"]
IMPORTS = ("From Coq Require Import List ZArith NArith String.\nFrom VRL Require Import Base.Bytes Base.Value Base.Lit Model.Expr Model.EvalInst Model.StdSig Model.Fuel Corr.C03.\n"
           "Local Open Scope string_scope.")
MANIFEST = {
    "level": "exploration",
    "technique": "per-call watchdog sweep over every stdlib function (examples + generated tuples incl. extreme integers and non-finite floats; a timeout is confirmed by re-running the call alone with a 15 s budget) + Coq iteration-count theorems for the argument-controlled loops, tied by correspondence",
    "text": "EXPLORATION with a small proved core. Wall-clock time of ~200 Rust functions is not something a Gallina model can "
            "exhibit (DESIGN.md section 9). Proved (closed, Coq): explicit iteration counts for the two stdlib loops whose trip "
            "count is controlled by an argument value - format_number's padding loop (bounded by scale for scale >= 0; more "
            "than 9.2e18 iterations for a negative scale: refuted) and zip's MultiZip collect (terminates within min length + 1 "
            "rounds given at least one array; diverges for no array: refuted); the zip model is compared with the "
            "implementation. For all functions: every call of the sweep runs under a watchdog in a worker thread of a "
            "killable process; stack overflows kill the worker and are seen by the driver.",
    "note": "Trusted: OS scheduler / wall clock (timeouts are confirmed alone with a generous budget to rule out machine load), "
            "Python generator; for the proved core: Coq kernel + vm_compute + correspondence. Known findings: format_number "
            "negative scale, zip([]), unflatten with an empty separator.",
    "design_ref": "DESIGN.md section 5 C05",
}


def main(run, args):
    quick = run.tier == "quick"
    per_fn = 12 if quick else 60
    pl = vlib.proof_leg(ID, THEOREMS)
    for pr in pl["problems"]:
        vlib.log("proof-leg problem:", pr["kind"], pr["detail"][:400])
    if args.replay:
        r = json.load(open(args.replay))
        vlib.build_harness("stdfn")
        c = {"fn": r["function"], "plain": r["source"], "bang": None, "event": r["event"], "args": [], "origin": "generated"}
        o = sc.run_calls([c], 15000)[0]
        v = [cls for p, cls in sc.classify(c, o) if p == ID]
        print(json.dumps({"impl": o, "violations": v}))
        if v:
            print("VIOLATION property=%s replay=%s" % (ID, args.replay))
        return 1 if v else 0
    fns, cases, outs, viol = sc.sweep(run, ID, per_fn, 3000)
    sc.report(run, ID, fns, cases, outs, viol)
    # size of outputs relative to inputs (reported, and judged for gross blow-ups)
    worst = sorted(((o.get("out_size", 0), sc.source_of(c)[:80]) for c, o in zip(cases, outs) if o.get("result") == "ok"), reverse=True)[:5]
    # ---- the zip model vs the implementation
    rng = run.rng
    zc, terms = [], []
    for _ in range(60 if quick else 600):
        its = [[rng.choice([ji(1), js("a"), None, True]) for _ in range(rng.randint(0, 4))] for _ in range(rng.randint(0, 4))]
        zc.append(its)
    zouts = vlib.run_harness("stdfn", [{"op": "call", "src": "zip!(.p0)".encode().hex(), "event": jo([("p0", ja([ja(x) for x in its]))]), "fn": "zip"} for its in zc])
    for its, o in zip(zc, zouts):
        if o.get("result") == "ok" and o.get("value") is not None:
            terms.append("CZip [%s] [%s]" % ("; ".join("[%s]" % "; ".join(coq_value(v) for v in l) for l in its),
                                             "; ".join("[%s]" % "; ".join(coq_value(v) for v in l["a"]) for l in o["value"]["a"])))
    bad, err = vlib.run_model_checks(ID, IMPORTS, terms, check="check", tag="zip")
    if (bad or err or len(terms) < len(zc) // 2) and not run.violations:
        run.violation({"kind": "correspondence broken: the zip model differs from the implementation", "correspondence_suite": "C05/zip",
                       "terms": [terms[b] for b in bad[:5]], "detail": err, "compared": len(terms), "theorems_about_model": THEOREMS}, nofail=True)
    if pl["problems"] and not any(not nf for _, nf in run.violations):
        run.violation({"kind": "proof obligation no longer checks", "theorems": THEOREMS, "problems": pl["problems"][:10]}, nofail=True)
    cov = sc.coverage(run, fns, cases, outs, viol, pl)
    slow = sorted(((o.get("run_ms", 0), sc.source_of(c)[:80]) for c, o in zip(cases, outs) if isinstance(o.get("run_ms"), int)), reverse=True)[:5]
    cov.update({"checker_cmd": "make -C coq Properties/C05.vo + Print Assumptions + pinned statements (proved core only)",
                "trusted_base": ["wall clock / OS scheduler", "Python generator", "Coq kernel + vm_compute for the proved core"],
                "watchdog_ms": 3000, "confirm_budget_ms": 15000, "slowest_calls_ms": slow, "largest_outputs": worst,
                "zip_model_cases": len(terms), "zip_model_disagreements": len(bad), "known_finding_hits": sorted(run.known_hits)})
    return run.finish(cov)
