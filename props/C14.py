"""C14 — evaluation is deterministic and thread-safe."""
import json
import os
import re
import subprocess

import corevrl as cv
import vlib
from vlib import ji, js, jo, ja

ID = "C14"
THEOREMS = ["C14_run_determined_by_called_functions", "C14_cleared_runtime_is_fresh", "C14_example"]
MANIFEST = {
    "level": "proof",
    "technique": "Coq congruence proof (a run depends on the function semantics only through the called functions) + differential correspondence + compile-twice / cleared-runtime / multi-threaded runs of the real Program + source scan for shared mutable state",
    "text": "Closed Coq theorems on the runtime model: a run is determined by program, initial state and the semantics of the "
            "functions it calls (so nondeterminism can only come from nondeterministic functions), and a cleared runtime is a "
            "fresh one. PARTIAL by nature: data races / shared mutable state in the Rust cannot be exhibited by a Gallina "
            "model; that half is exploration on the implementation: every generated program is compiled twice (same Program "
            "debug form, info, behaviour), run on several events sequentially with fresh runtimes, with one cleared runtime, "
            "and from N threads sharing one Arc<Program> walking the events in different orders; all must coincide, and the "
            "sequential results are compared with the model. A source scan lists static mut / thread_local / LazyLock / Mutex "
            "/ RefCell / Atomic sites under src/compiler and src/stdlib and fails when the list changes.",
    "note": "Trusted: Coq kernel + vm_compute; hand model Model/Eval.v (tie = correspondence); thread schedules are whatever "
            "the OS produces in the run (not exhaustive). Explicitly nondeterministic functions are never generated. No axioms.",
    "design_ref": "DESIGN.md section 5 C14",
}
SCAN_RE = re.compile(r"static\s+mut\b|thread_local!|LazyLock|OnceLock|OnceCell|Mutex<|RwLock<|RefCell<|AtomicU|AtomicI|AtomicBool|lazy_static!")
SCAN_FILE = os.path.join(vlib.VERIF, "props", "C14_shared_state_sites.json")


def scan_sites():
    sites = {}
    for root in ("src/compiler", "src/stdlib", "src/value", "src/path"):
        for dp, _, fs in os.walk(os.path.join(vlib.REPO, root)):
            for fn in fs:
                if fn.endswith(".rs"):
                    p = os.path.join(dp, fn)
                    txt = open(p, errors="replace").read()
                    # ignore test modules
                    txt = txt.split("#[cfg(test)]")[0]
                    n = len(SCAN_RE.findall(txt))
                    if n:
                        sites[os.path.relpath(p, vlib.REPO)] = n
    return sites


def gen_history_cases(run, n):
    """history-dependence probes: programs with many variables (the variable table grows past its initial capacity) and a
    variable that only some events assign (on the right of && / || / ??), run on an event that assigns it followed by
    events that do not: a runtime cleared in between must behave like a fresh one"""
    rng = run.rng
    from corevrl import lit, ev_field, f
    cases = []
    for _ in range(n):
        k = rng.choice([1, 2, 5, 12, 14, 15, 16, 17, 20, 33, 40, 70])
        names = ["hv%d" % i for i in range(k)]
        stmts = [("assign", ("tvar", names[0], []), lit(ji(rng.randint(0, 9))))]
        for i in range(1, k):
            stmts.append(("assign", ("tvar", names[i], []), ("var", names[rng.randrange(i)]) if rng.random() < 0.7 else lit(ji(i))))
        setm = ("op", "ne", ("assign", ("tvar", "marker", []), ev_field("i")), lit(None))
        form = rng.choice(["and", "or", "err"])
        if form == "and":
            stmts.append(("op", "and", ("op", "eq", ev_field("go"), lit(True)), setm))
        elif form == "or":
            stmts.append(("op", "or", ("op", "ne", ev_field("go"), lit(True)), setm))
        else:
            stmts.append(("op", "err", ("call", "bool", False, [ev_field("go")]), setm))
        stmts.append(("assign", ("text", "event", [f("marker")]), ("var", "marker")))
        stmts.append(("var", names[-1]))
        try:
            cv.vrl_program(stmts)
        except ValueError:
            continue
        first = {"and": True, "or": True, "err": "x"}[form]
        later = {"and": False, "or": False, "err": True}[form]
        mk = lambda go, i: jo([("go", js(go) if isinstance(go, str) else go), ("i", ji(i))])
        evs = [mk(first, 5), mk(later, 6), mk(first, 7), mk(later, 8)]
        cases.append({"kind": "random", "ast": stmts, "event": evs[0], "events": evs, "meta": jo([]),
                      "vars": names[:3] + ["marker"], "meta_info": {"ctx": ["history:%s:%d-vars" % (form, k)]}})
    return cases


def main(run, args):
    import checklib
    quick = run.tier == "quick"
    n = 600 if quick else 4000
    pl = vlib.proof_leg(ID, THEOREMS)
    for pr in pl["problems"]:
        vlib.log("proof-leg problem:", pr["kind"], pr["detail"][:400])
    vlib.build_harness("determ")
    vlib.build_harness("prog")
    if args.replay:
        r = json.load(open(args.replay))
        out = vlib.run_harness("determ", [r["determ_case"]])[0]
        print(json.dumps(out)[:2000])
        bad = not all(out.get(k, False) for k in ("compile_same", "cleared_same", "threads_same"))
        if bad:
            print("VIOLATION property=%s replay=%s" % (ID, args.replay))
        return 1 if bad else 0
    cases = cv.gen_random_cases(run, n) + gen_history_cases(run, max(40, n // 10))
    dcases = []
    for c in cases:
        evs = c.get("events") or ([c["event"]] + [cv.rand_event(run.rng) for _ in range(3)])
        dcases.append({"src": cv.vrl_program(c["ast"]).encode().hex(), "events": evs, "meta": c["meta"], "threads": 6})
    douts = vlib.run_harness("determ", dcases)
    # correspondence of the sequential result on the first event with the model (prog family)
    outs, compiled, bad_check, failed, err = cv.run_cases(ID, cases)
    compiled_d = [i for i, o in enumerate(douts) if o.get("compile") == "ok"]
    viol = 0
    for i, o in enumerate(douts):
        if any(k in o for k in ("panic", "crash", "timeout", "harness_error")):
            continue
        probs = [k for k in ("compile_same", "cleared_same", "threads_same") if o.get(k) is False]
        if o.get("compile") == "ok" and i in set(compiled) and o["seq"][0]["result"] != outs[i]["result"]:
            probs.append("sequential result differs from the single run of the same program")
        if probs and viol < 3:
            viol += 1
            run.violation({"kind": "property fails on the implementation", "why": probs, "source": cv.vrl_program(cases[i]["ast"]),
                           "determ_case": dcases[i], "impl": {k: o.get(k) for k in ("compile_same", "cleared_same", "dirty_same", "threads_same")}})
    if bad_check and not run.violations:
        i = bad_check[0]
        run.violation({"kind": "correspondence broken: model and implementation disagree", "correspondence_suite": "Core-VRL programs",
                       "source": cv.vrl_program(cases[i]["ast"]), "case": cases[i], "impl": outs[i], "theorems_about_model": THEOREMS}, nofail=True)
    # shared mutable state inventory
    sites = scan_sites()
    known = json.load(open(SCAN_FILE)) if os.path.exists(SCAN_FILE) else None
    if known is not None and sites != known and not run.violations:
        diff = {k: (known.get(k), sites.get(k)) for k in set(known) | set(sites) if known.get(k) != sites.get(k)}
        run.violation({"kind": "inventory of shared-mutable-state sites changed (static mut / thread_local / LazyLock / Mutex / RefCell / Atomic*); "
                               "each site is classified in props/C14_shared_state_sites.json", "changed": diff}, nofail=True)
    if err and not run.violations:
        run.violation({"kind": "model evaluation failed", "detail": err}, nofail=True)
    if pl["problems"] and not any(not nf for _, nf in run.violations):
        run.violation({"kind": "proof obligation no longer checks", "theorems": THEOREMS, "problems": pl["problems"][:10]}, nofail=True)
    dirty_diff = sum(1 for o in douts if o.get("dirty_same") is False)
    cov = {"obligations": pl["obligations"], "discharged": pl["discharged"],
           "checker_cmd": "make -C coq Properties/C14.vo + Print Assumptions + pinned statements",
           "trusted_base": ["Coq 8.16.1 kernel incl. vm_compute", "hand model Model/Eval.v", "Rust harness determ/prog", "OS thread scheduler (schedules not enumerated)"],
           "axioms": pl.get("axioms", {}), "evaluations": len(dcases), "distinct_nontrivial": len({d["src"] for i, d in enumerate(dcases) if i in set(compiled_d)}),
           "rule": "random Core-VRL programs x 4 events x (2 compilations, fresh/cleared/uncleared runtime, 6 threads); non-trivial = compiled; seed %d" % run.seed,
           "programs_compiled": len(compiled_d), "threads_per_program": 6, "events_per_program": 4,
           "uncleared_runtime_differs": dirty_diff, "traces_validated_against_impl": len(compiled),
           "correspondence_disagreements": len(bad_check), "shared_state_sites": sites,
           "samples": [{"source": cv.vrl_program(cases[i]["ast"]), "flags": {k: douts[i].get(k) for k in ("compile_same", "cleared_same", "threads_same")}} for i in compiled_d[:3]]}
    return run.finish(cov)
