"""C23 — Encryption round-trips for every algorithm (encrypt/decrypt, encrypt_ip/decrypt_ip)."""
import ipaddress

import vlib
from vlib import coq_hex, coq_bool

ID = "C23"
THEOREMS = [
    "C23_unpad_pad", "C23_pad_length", "C23_cbc", "C23_cfb", "C23_ofb", "C23_ctr", "C23_roundtrip",
    "C23_names_paired", "C23_accepted_alike", "C23_cipher_length", "C23_hypotheses_satisfiable",
    "C23_ip_roundtrip", "C23_pfx_invertible", "C23_ip_roundtrip_pfx", "C23_ip_text_parses", "C23_ip_mapped_refuted", "C23_ip_pfx_collision_refuted",
    "C23_ip_pfx_equal_halves_rejected", "C23_ip_hypotheses_satisfiable",
]
IMPORTS = ("From Coq Require Import String.\nFrom Coq Require Import List NArith ZArith.\n"
           "From VRL Require Import Base.Bytes Base.Lit Model.Padding Model.Modes Model.Aes Model.Ip Model.CipherGlue Model.IpPfx "
           "Corr.C23.\nLocal Open Scope string_scope.")
MANIFEST = {
    "level": "proof",
    "technique": "Coq proofs (induction over block lists; finite table check) on hand models of the block paddings, the "
                 "CBC/CFB/OFB/CTR modes over an abstract block cipher and the algorithm dispatch of encrypt.rs/decrypt.rs + "
                 "differential correspondence (ciphertext bytes, with the model's block cipher instantiated by a Gallina AES) "
                 "vs encrypt/decrypt/encrypt_ip/decrypt_ip run through compiled VRL programs",
    "text": "Closed Coq theorems: unpad(pad m) = m for PKCS7 / ANSI X9.23 / ISO 7816-4 / ISO 10126 and every message length "
            "(exact block multiples get a whole padding block); CBC, CFB-128, OFB and CTR (64-bit LE and BE counters, "
            "wrapping) invert for every data length over ANY block cipher with D k (E k b) = b; decrypt(encrypt(p)) = p for "
            "every accepted spelling of all 32 algorithm names (names are upper-cased first: lower case, dotless i and long s "
            "are accepted too), any plaintext, any key/IV of the sizes the name requires; the three Rust tables (match of "
            "encrypt, match of decrypt, is_valid_algorithm) agree on every name; ciphertext lengths. encrypt_ip/decrypt_ip: "
            "round trip for every address and both modes outside two classes that are refuted with witnesses (IPv4-mapped "
            "IPv6 addresses come back as IPv4; pfx: an IPv6 address whose encryption is IPv4-mapped is decrypted in 32-bit "
            "mode); pfx keys with two equal halves are refused with a key error (C23_ip_pfx_equal_halves_rejected). The models are compared with the implementation on ciphertext "
            "BYTES for all AES names (the abstract cipher instantiated with a Gallina FIPS-197 AES) and on outcome classes and "
            "lengths for the AEADs; decrypt(encrypt(p)) = p is searched directly on the implementation for all names, "
            "plaintext lengths 0..48 and random up to 1 KiB, right and wrong key/IV sizes, and all address kinds.",
    "note": "Partial where a library primitive is involved: the block cipher (aes crate), the AEAD/SIV seal/open pairs "
            "(chacha20poly1305, crypto_secretbox, aes-siv) and the ipcrypt-deterministic permutation are universally quantified "
            "arguments with the inverse law as hypothesis; ipcrypt-pfx IS modelled (Model/IpPfx.v) and proved invertible over "
            "any block cipher (C23_pfx_invertible), and compared byte for byte; the modes and paddings (cbc, cfb-mode, ofb, ctr, block-padding "
            "crates) ARE modelled and proved. Model/Aes.v is used only to instantiate the cipher in the correspondence run "
            "(pinned to FIPS-197 appendix C vectors), no theorem depends on it. str::to_uppercase is modelled for ASCII + "
            "U+0131 + U+017F (the only characters that upper-case into a single ASCII letter). Known findings: "
            "IPv4-mapped IPv6 not round-tripped, pfx IPv4-mapped ciphertext collision. Repaired in /repo and followed here: "
            "pfx equal-halves key panic (fb618e6, now a key error), decrypt panic on an AEAD/SIV authentication failure "
            "(a3fbb82, now `Invalid input`). "
            "No axioms (Print Assumptions: closed).",
    "design_ref": "DESIGN.md section 5 C23",
}

# ------------------------------------------------------------------------------------------------
# the algorithm names as the documentation lists them: name -> (key bytes, iv bytes, kind)
# ------------------------------------------------------------------------------------------------
ALGS = {}
for bits, kl in ((128, 16), (192, 24), (256, 32)):
    for m in ("CFB", "OFB", "CTR", "CTR-LE", "CTR-BE"):
        ALGS["AES-%d-%s" % (bits, m)] = (kl, 16, "stream")
    for pd in ("PKCS7", "ANSIX923", "ISO7816", "ISO10126"):
        ALGS["AES-%d-CBC-%s" % (bits, pd)] = (kl, 16, "cbc")
ALGS["AES-128-SIV"] = (32, 16, "aead")
ALGS["AES-256-SIV"] = (64, 16, "aead")
ALGS["CHACHA20-POLY1305"] = (32, 12, "aead")
ALGS["XCHACHA20-POLY1305"] = (32, 24, "aead")
ALGS["XSALSA20-POLY1305"] = (32, 24, "aead")
NAMES = sorted(ALGS)
assert len(NAMES) == 32

ERR_TAGS = {"alg": 1, "key": 2, "iv": 3, "input": 4, "parse": 5, "mode": 6, "compile": 7, "other": 9, "abort": 9}


def rbytes(rng, n):
    return bytes(rng.getrandbits(8) for _ in range(n))


def rand_iv(rng, n):
    """IVs: random, or with the 64-bit counter word at the wrap-around edge (both flavours)."""
    r = rng.random()
    if n == 16 and r < 0.15:
        return rbytes(rng, 8) + b"\xff" * 7 + bytes([rng.choice([0xfe, 0xff])])      # BE counter about to wrap
    if n == 16 and r < 0.3:
        return bytes([rng.choice([0xfe, 0xff])]) + b"\xff" * 7 + rbytes(rng, 8)      # LE counter about to wrap
    if r < 0.35:
        return bytes([rng.choice([0, 0xff])]) * n
    return rbytes(rng, n)


def rand_plain(rng, n):
    r = rng.random()
    if r < 0.1:
        return bytes(n)
    if r < 0.2:            # plaintext that itself looks like padding (unpad must not eat it)
        tail = rng.choice([b"\x01", b"\x02\x02", b"\x80", b"\x80\x00\x00", b"\x00\x00\x03", b"\x10" * 16, b"\x00" * 15 + b"\x10"])
        return (rbytes(rng, max(0, n - len(tail))) + tail)[:n] if n else b""
    return rbytes(rng, n)


def sym_case(rng, name, plen, const=False, klen=None, ivlen=None):
    kl, il, _ = ALGS.get(name.upper(), (rng.choice([16, 24, 32]), 16, "?")) if isinstance(name, str) else (16, 16, "?")
    nb = name.encode("utf-8") if isinstance(name, str) else bytes(name)
    return {"op": "sym", "alg": nb.hex(), "p": list(rand_plain(rng, plen)),
            "k": rbytes(rng, kl if klen is None else klen).hex(),
            "iv": rand_iv(rng, il if ivlen is None else ivlen).hex(), "const": const}


ODD_SIZES = [0, 1, 8, 12, 15, 16, 17, 23, 24, 25, 31, 32, 33, 48, 63, 64, 65]

# spellings: lower / mixed case (accepted: the name is upper-cased), U+0131 / U+017F (upper-case to I / S),
# characters whose upper case is longer or not ASCII, near misses
def respell(rng, name):
    r = rng.random()
    if r < 0.3:
        return name.lower()
    if r < 0.5:
        return "".join(c.lower() if rng.random() < 0.5 else c for c in name)
    if r < 0.7:
        s = name.lower()
        s = s.replace("i", "ı") if rng.random() < 0.5 else s
        s = s.replace("s", "ſ", 1) if rng.random() < 0.7 else s
        return s
    if r < 0.8:
        return name.replace("S", rng.choice(["ß", "ﬆ", "$"]), 1).replace("F", rng.choice(["ﬀ", "ﬁ", "f"]), 1)
    if r < 0.9:
        return rng.choice([name + " ", " " + name, name + "-", name[:-1], name + "X", name.replace("-", "_"),
                           name.replace("-", ""), name.replace("AES", "AE5"), name.replace("K", "K")])
    return rng.choice(["", "AES", "AES-128", "AES-512-CFB", "AES-128-GCM", "AES-128-ECB", "AES-128-CBC", "DES-CBC",
                       "AES-128-CBC-ZERO", "AES-128-CBC-NOPADDING", "AES-128-CTR-XE", "AES-384-SIV", "CHACHA20",
                       "POLY1305", "XCHACHA20-POLY1305X", "SALSA20-POLY1305", "AES-256-CFB8", "none", "null"])


V4_EDGES = ["0.0.0.0", "255.255.255.255", "127.0.0.1", "10.0.0.1", "192.168.1.1", "1.2.3.4", "224.0.0.1",
            "169.254.0.1", "100.64.0.0", "128.0.0.0", "0.0.0.1", "1.0.0.0", "255.0.0.0", "8.8.8.8", "192.0.2.255"]
V6_EDGES = ["::", "::1", "2001:db8::1", "fe80::1", "ff02::1", "2001:DB8:0:0:8:800:200C:417A", "1::", "::2:3:4:5:6:7:8",
            "1:2:3:4:5:6:7:8", "ffff:ffff:ffff:ffff:ffff:ffff:ffff:ffff", "::ffff:0:0", "64:ff9b::192.0.2.33",
            "2001:db8:0:0:1:0:0:1", "0:0:0:0:0:0:0:0", "::1.2.3.4", "1:0:0:2:0:0:0:3", "fe80::0123:4567:89ab:cdef"]
V6_MAPPED = ["::ffff:1.2.3.4", "::ffff:0.0.0.0", "::ffff:255.255.255.255", "0:0:0:0:0:ffff:c0a8:101", "::FFFF:10.0.0.1"]
BAD_IPS = ["", "not an ip", "1.2.3", "1.2.3.4.5", "256.1.1.1", "01.2.3.4", "1.2.3.4 ", " 1.2.3.4", "1.2.3.4/24", ":::",
           "1::2::3", "12345::1", "1:2:3:4:5:6:7:8:9", "fe80::1%eth0", "[::1]", "::ffff:1.2.3", "g::1", "1.2.3.4x"]
KEY16 = b"sixteen byte key"
KEY32 = b"thirty-two bytes key for pfx use"


def rand_v6(rng):
    r = rng.random()
    if r < 0.25:
        return rng.choice(V6_EDGES)
    groups = [rng.getrandbits(16) if rng.random() < 0.7 else 0 for _ in range(8)]
    a = ipaddress.IPv6Address(int.from_bytes(b"".join(g.to_bytes(2, "big") for g in groups), "big"))
    if r < 0.5:
        return a.exploded
    if r < 0.6:
        return a.compressed.upper()
    return a.compressed


def rand_v4(rng):
    if rng.random() < 0.4:
        return rng.choice(V4_EDGES)
    return ".".join(str(rng.choice([0, 1, 9, 10, 99, 100, 127, 128, 199, 200, 254, 255, rng.randrange(256)])) for _ in range(4))


def ip_case(rng, ip, mode, key=None, pre=False):
    if key is None:
        n = {"aes128": 16, "pfx": 32}.get(mode, rng.choice([16, 32]))
        key = rbytes(rng, n)
        if mode == "pfx" and key[:16] == key[16:]:
            key = bytes([key[0] ^ 1]) + key[1:]
    ipb = ip.encode("utf-8") if isinstance(ip, str) else bytes(ip)
    mb = mode.encode("utf-8") if isinstance(mode, str) else bytes(mode)
    return {"op": "ip", "ip": ipb.hex(), "k": bytes(key).hex(), "mode": mb.hex(), "pre": pre}


def gen_cases(run, n):
    """n scales the random streams; the every-algorithm x lengths 0..48 sweep is always complete."""
    rng = run.rng
    cases = []
    # A: every algorithm x every plaintext length 0..48 (padding boundaries 15/16/17, 31/32/33, 47/48)
    for name in NAMES:
        for plen in range(49):
            cases.append(sym_case(rng, name, plen, const=(plen % 7 == 3)))
    scale = max(1, n // 1000)
    # B: random lengths up to 1 KiB
    for _ in range(120 * scale):
        name = rng.choice(NAMES)
        plen = rng.choice([rng.randrange(49, 1025), rng.randrange(49, 200), 16 * rng.randrange(4, 65), 1023, 1024])
        cases.append(sym_case(rng, name, plen))
    # C: keys / IVs of wrong (and right) sizes
    for _ in range(200 * scale):
        name = rng.choice(NAMES)
        kl, il, _ = ALGS[name]
        r = rng.random()
        klen = rng.choice(ODD_SIZES) if r < 0.6 else kl
        ivlen = rng.choice(ODD_SIZES) if r > 0.4 else il
        cases.append(sym_case(rng, name, rng.randrange(0, 40), klen=klen, ivlen=ivlen, const=rng.random() < 0.2))
    # D: spellings of the name; run-time value and constant argument
    for _ in range(250 * scale):
        name = respell(rng, rng.choice(NAMES))
        const = rng.random() < 0.5 and all(c not in name for c in '"\\{}') and all(ord(c) >= 32 for c in name)
        c = sym_case(rng, name, rng.randrange(0, 36), const=const)
        if rng.random() < 0.3:
            c = {"op": "dec", "alg": c["alg"], "c": c["p"], "k": c["k"], "iv": c["iv"], "const": const}
        cases.append(c)
    for _ in range(10 * scale):           # names that are not UTF-8
        nb = bytearray(rng.choice(NAMES).encode())
        nb[rng.randrange(len(nb))] = rng.choice([0x80, 0xff, 0xc4, 0xc5, 0xe0])
        cases.append(sym_case(rng, bytes(nb), rng.randrange(0, 20)))
    # E: decrypt alone on foreign / truncated ciphertexts
    for _ in range(200 * scale):
        name = rng.choice(NAMES)
        kl, il, kind = ALGS[name]
        clen = rng.choice([0, 1, 15, 16, 17, 31, 32, 33, 48, rng.randrange(0, 80)])
        cases.append({"op": "dec", "alg": name.encode().hex(), "c": list(rbytes(rng, clen)), "k": rbytes(rng, kl).hex(),
                      "iv": rand_iv(rng, il).hex(), "const": False})
    # F: IP addresses: all IPv4 / IPv6 edge addresses x both modes, random ones, malformed text, wrong mode / key
    for ip in V4_EDGES + V6_EDGES + V6_MAPPED:
        for mode in ("aes128", "pfx"):
            cases.append(ip_case(rng, ip, mode))
    for _ in range(60 * scale):
        mode = rng.choice(["aes128", "pfx"])
        cases.append(ip_case(rng, rand_v4(rng), mode))
    for _ in range(90 * scale):
        mode = "aes128" if rng.random() < 0.7 else "pfx"      # pfx on IPv6 costs 256 AES calls per direction
        cases.append(ip_case(rng, rand_v6(rng), mode))
    for _ in range(6 * scale):
        cases.append(ip_case(rng, rng.choice(V6_MAPPED), rng.choice(["aes128", "pfx"])))
    for ip in BAD_IPS:
        cases.append(ip_case(rng, ip, rng.choice(["aes128", "pfx"])))
    for _ in range(30 * scale):
        ip = rand_v4(rng) if rng.random() < 0.5 else rand_v6(rng)
        r = rng.random()
        if r < 0.4:
            cases.append(ip_case(rng, ip, rng.choice(["AES128", "PFX", "aes-128", "", "aes128 ", "pfx\x00", "nd", "ndx"])))
        elif r < 0.8:
            cases.append(ip_case(rng, ip, rng.choice(["aes128", "pfx"]), key=rbytes(rng, rng.choice([0, 15, 17, 16, 31, 32, 33, 64]))))
        else:
            half = rbytes(rng, 16)
            cases.append(ip_case(rng, ip, "pfx", key=half + half))
    # the constructed collision: an IPv6 address that pfx-encrypts to an IPv4-mapped one, and the same for aes128
    for _ in range(4 * scale):
        cases.append(ip_case(rng, "::ffff:" + rand_v4(rng), rng.choice(["aes128", "pfx"]), pre=True))
    for _ in range(20 * scale):
        ip = rand_v4(rng) if rng.random() < 0.5 else rand_v6(rng)
        c = ip_case(rng, ip, rng.choice(["aes128", "pfx"]))
        cases.append({"op": "ipdec", "ip": c["ip"], "k": c["k"], "mode": c["mode"]})
    return cases


# ------------------------------------------------------------------------------------------------
# rendering
# ------------------------------------------------------------------------------------------------
def hexof(x):
    return bytes(x).hex() if isinstance(x, list) else x


def coq_ires(r):
    if r is None:
        return "INone"
    if "ok" in r:
        return "(IOk %s)" % coq_hex(r["ok"])
    if "panic" in r:
        return "IPanic"
    return "(IErr %d)" % ERR_TAGS.get(r["err"], 9)


def to_coq(c, o):
    op = c["op"]
    if op == "sym":
        return "CSym %s %s %s %s %s %s %s" % (coq_bool(c.get("const", False)), coq_hex(hexof(c["alg"])), coq_hex(hexof(c["p"])),
                                             coq_hex(hexof(c["k"])), coq_hex(hexof(c["iv"])), coq_ires(o["enc"]), coq_ires(o["dec"]))
    if op == "dec":
        return "CDec %s %s %s %s %s %s" % (coq_bool(c.get("const", False)), coq_hex(hexof(c["alg"])), coq_hex(hexof(c["c"])),
                                          coq_hex(hexof(c["k"])), coq_hex(hexof(c["iv"])), coq_ires(o["dec"]))
    if op == "ip":
        return "CIp %s %s %s %s %s %s %s" % (coq_bool(c.get("pre", False)), coq_hex(hexof(c["ip"])), coq_hex(hexof(c["k"])),
                                            coq_hex(hexof(c["mode"])), coq_ires(o["pre"]), coq_ires(o["enc"]), coq_ires(o["dec"]))
    if op == "ipdec":
        return "CIpDec %s %s %s %s" % (coq_hex(hexof(c["ip"])), coq_hex(hexof(c["k"])), coq_hex(hexof(c["mode"])), coq_ires(o["dec"]))
    raise ValueError("bad op %r" % op)


def _ok_text(r):
    if isinstance(r, dict) and "ok" in r:
        try:
            return bytes.fromhex(r["ok"]).decode("ascii")
        except Exception:
            return None
    return None


def _addr(s):
    try:
        return ipaddress.ip_address(s)
    except Exception:
        return None


def known_matcher(entry, c, o):
    cls = entry.get("match", {}).get("class")
    if c.get("op") != "ip":
        return False
    mode = bytes.fromhex(hexof(c["mode"]))
    key = bytes.fromhex(hexof(c["k"]))
    if c.get("pre"):
        ip = _ok_text(o.get("pre"))
    else:
        try:
            ip = bytes.fromhex(hexof(c["ip"])).decode("ascii")
        except Exception:
            ip = None
    a = _addr(ip) if ip is not None else None
    if a is None or a.version != 6:
        return False
    if cls == "ip-v4-mapped-v6":
        d = _addr(_ok_text(o.get("dec")) or "")
        return a.ipv4_mapped is not None and d is not None and d.version == 4 and d == a.ipv4_mapped
    if cls == "ip-pfx-mapped-ciphertext":
        e = _addr(_ok_text(o.get("enc")) or "")
        return mode == b"pfx" and a.ipv4_mapped is None and e is not None and e.version == 4
    return False


def nontrivial(c):
    if c["op"] == "sym":
        return len(c["p"]) >= 1
    if c["op"] == "dec":
        return len(c["c"]) >= 1
    return True


def main(run, args):
    import checklib
    n = 1000 if run.tier == "quick" else 20000
    if args.cases:
        n = args.cases
    return checklib.standard(run, ID, THEOREMS, IMPORTS, "crypto", gen_cases, to_coq, n, nontrivial=nontrivial,
                             replay=args.replay, known_matcher=known_matcher)
