"""Shared by C10 and C11: operand-pair generator, Python reference arithmetic, rendering of harness answers
(harness/src/bin/arith.rs) as Gallina terms for Corr/C10.v and Corr/C11.v."""
import math
import struct

import gen
from vlib import coq_value, ji, jf_bits, jb, jts

CMP_OPS = ["eq", "ne", "lt", "le", "gt", "ge"]
ARITH_OPS = ["add", "sub", "mul", "div", "rem"]
I64_MIN, I64_MAX = -2**63, 2**63 - 1
ALPHABET = [0x00, 0x61, 0x62, 0x7f, 0x80, 0xff]
TS_BASE = [0, 1, -1, 10**9, -(10**9), 1600000000 * 10**9 + 123456789, -(10**15), 253402300799 * 10**9 + 999999999,
           4 * 10**18, -4 * 10**18]


# ---------------------------------------------------------------------------------------------
# generators
# ---------------------------------------------------------------------------------------------

def clamp(z):
    return max(I64_MIN, min(I64_MAX, z))


def big_int(rng):
    """integers whose conversion to f64 is inexact or on the edge: |z| around and above 2^53"""
    r = rng.random()
    if r < 0.35:
        z = 2**53 + rng.randint(-3, 6)
    elif r < 0.55:
        z = 2**rng.randint(53, 62) + rng.randint(-4, 4)
    elif r < 0.7:
        z = 2**63 - 1 - rng.randint(0, 1500)
    else:
        z = rng.randint(2**53, 2**63 - 1)
    return clamp(-z if rng.random() < 0.4 else z)


def any_int(rng):
    r = rng.random()
    if r < 0.3:
        return rng.choice(gen.INT_EDGES)
    if r < 0.5:
        return big_int(rng)
    if r < 0.75:
        return rng.randint(-100, 100)
    return rng.randint(I64_MIN, I64_MAX)


def int_pair(rng):
    r = rng.random()
    if r < 0.2:
        return rng.choice(gen.INT_EDGES), rng.choice(gen.INT_EDGES)
    if r < 0.5:
        x = any_int(rng)
        return x, clamp(x + rng.choice([0, 1, -1, 2, -2, 3, 512, -1024]))
    if r < 0.6:
        x = any_int(rng)
        return x, clamp(-x + rng.choice([0, 0, 1, -1]))
    if r < 0.7:   # divisors of interest
        return any_int(rng), rng.choice([0, 1, -1, 2, -2, 3, 7, -7, 10, I64_MIN, I64_MAX])
    if r < 0.8:   # products around 2^63 / 2^64
        x = rng.choice([2**31, 2**32, 2**32 + 1, 3037000499, 3037000500, -3037000500, 2**62, 2**33 - 1, 4294967295])
        return x, rng.choice([x, -x, x + 1, 2, -2, 3, 2**31, 2**32])
    return any_int(rng), any_int(rng)


def is_nan_bits(b):
    return (b >> 52) & 0x7ff == 0x7ff and (b & (2**52 - 1)) != 0


def float_bits_of(x):
    return struct.unpack("<Q", struct.pack("<d", x))[0]


def float_of_bits(b):
    return struct.unpack("<d", struct.pack("<Q", b))[0]


def any_float_bits(rng):
    return gen.rand_float_bits(rng)


def float_pair(rng):
    r = rng.random()
    x = any_float_bits(rng)
    if r < 0.15:
        return x, x
    if r < 0.25:
        return x, x ^ (1 << 63)                      # same magnitude, other sign (+0 / -0 included)
    if r < 0.45:
        while True:
            y = (x + rng.choice([1, -1, 2, -2, 1 << 52, -(1 << 52)])) % 2**64
            if not is_nan_bits(y):
                return x, y
            x = any_float_bits(rng)
    if r < 0.55:                                     # huge exponent gaps for fmod
        return rng.choice([0x7fefffffffffffff, 0xffefffffffffffff, 0x7fe0000000000001, 0x4340000000000001]), \
            rng.choice([0x0000000000000001, 0x0000000000000003, 0x8000000000000007, 0x000fffffffffffff, 0x0010000000000001,
                        0x3ff0000000000001, 0x4008000000000000])
    return x, any_float_bits(rng)


def mixed_pair(rng):
    """(int, float bits): the float is the conversion of the integer, a neighbour of it, or unrelated"""
    z = any_int(rng)
    r = rng.random()
    if r < 0.35:
        b = float_bits_of(float(z))
    elif r < 0.6:
        b = (float_bits_of(float(z)) + rng.choice([1, -1, 2])) % 2**64
        if is_nan_bits(b):
            b = float_bits_of(float(z))
    elif r < 0.7:
        b = rng.choice([0x0000000000000000, 0x8000000000000000, 0x7ff0000000000000, 0xfff0000000000000,
                        0x43e0000000000000, 0xc3e0000000000000, 0x4340000000000000, 0x3fe0000000000000])
    else:
        b = any_float_bits(rng)
    return z, b


def rand_bytes(rng, maxlen=4):
    return bytes(rng.choice(ALPHABET) for _ in range(rng.randint(0, maxlen)))


def bytes_pair(rng):
    r = rng.random()
    s = rand_bytes(rng)
    if r < 0.2:
        return s, s
    if r < 0.4:
        return s, s + rand_bytes(rng, 2)             # prefix
    if r < 0.5:
        return s + rand_bytes(rng, 2), s
    if r < 0.7 and s:
        t = bytearray(s)
        t[rng.randrange(len(t))] = rng.choice(ALPHABET)
        return s, bytes(t)
    return s, rand_bytes(rng)


def ts_pair(rng):
    x = rng.choice(TS_BASE) + rng.choice([0, 0, 1, -1, 999999999, 10**9])
    r = rng.random()
    if r < 0.6:
        return x, x + rng.choice([0, 1, -1, 10**9, -(10**9), 1000])
    return x, rng.choice(TS_BASE)


def flip_some_zero(rng, v):
    """a copy of v in which float zeros may have changed sign and, with small probability, one leaf changed"""
    if isinstance(v, dict):
        if "f" in v:
            b = int(v["f"], 16)
            if b in (0, 1 << 63) and rng.random() < 0.6:
                return jf_bits(b ^ (1 << 63))
            if rng.random() < 0.1:
                return jf_bits(rng.choice([0, 1 << 63, 0x3ff0000000000000]))
            return v
        if "i" in v:
            return ji(clamp(int(v["i"]) + 1)) if rng.random() < 0.08 else v
        if "o" in v:
            kvs = [[k, flip_some_zero(rng, x)] for k, x in v["o"]]
            if kvs and rng.random() < 0.06:
                del kvs[rng.randrange(len(kvs))]
            return {"o": kvs}
        if "a" in v:
            xs = [flip_some_zero(rng, x) for x in v["a"]]
            if rng.random() < 0.06:
                xs = xs + [None]
            return {"a": xs}
    return v


def zeroish_value(rng, depth):
    """structured values rich in float zeros, integers and floats that are numerically equal"""
    r = rng.random()
    if depth <= 0 or r < 0.4:
        return rng.choice([jf_bits(0), jf_bits(1 << 63), ji(0), ji(1), jf_bits(0x3ff0000000000000), None, True, False,
                           jb(b"a"), jb(b""), jts(0), {"r": b"a+".hex()}, {"r": b".".hex()}])
    if r < 0.7:
        ks = [k for k in ["a", "b", "c"] if rng.random() < 0.6]
        return {"o": [[k.encode().hex(), zeroish_value(rng, depth - 1)] for k in ks]}
    return {"a": [zeroish_value(rng, depth - 1) for _ in range(rng.randint(0, 3))]}


def structured_pair(rng):
    x = zeroish_value(rng, 3) if rng.random() < 0.6 else gen.rand_value(rng, depth=2)
    r = rng.random()
    if r < 0.3:
        return x, x
    if r < 0.8:
        return x, flip_some_zero(rng, x)
    return x, zeroish_value(rng, 2)


def scalar_any(rng):
    r = rng.random()
    if r < 0.2:
        return ji(any_int(rng))
    if r < 0.4:
        return jf_bits(any_float_bits(rng))
    if r < 0.55:
        return jb(rand_bytes(rng))
    if r < 0.65:
        return jts(rng.choice(TS_BASE))
    if r < 0.75:
        return None
    if r < 0.85:
        return rng.choice([True, False])
    if r < 0.9:
        return {"r": rng.choice(["a+", "^x$", "."]).encode().hex()}
    return gen.rand_value(rng, depth=1)


def safe_for_repeat(x, y):
    """`bytes * n` allocates len * n bytes: keep n small unless the string is empty"""
    def fix(s, n):
        if "b" in s and s["b"] != "" and int(n["i"]) > 64:
            return ji(int(n["i"]) % 50)
        return n
    if isinstance(x, dict) and isinstance(y, dict):
        if "b" in x and "i" in y:
            y = fix(x, y)
        elif "i" in x and "b" in y:
            x = fix(y, x)
    return x, y


def gen_pair(rng):
    """-> (class label, x, y) as JSON values"""
    r = rng.random()
    if r < 0.30:
        a, b = int_pair(rng)
        return "int/int", ji(a), ji(b)
    if r < 0.50:
        a, b = float_pair(rng)
        return "float/float", jf_bits(a), jf_bits(b)
    if r < 0.62:
        z, b = mixed_pair(rng)
        if rng.random() < 0.5:
            return "int/float", ji(z), jf_bits(b)
        return "float/int", jf_bits(b), ji(z)
    if r < 0.72:
        s, t = bytes_pair(rng)
        return "bytes/bytes", jb(s), jb(t)
    if r < 0.79:
        s, t = ts_pair(rng)
        return "ts/ts", jts(s), jts(t)
    if r < 0.86:
        s = rand_bytes(rng)
        k = rng.random()
        if k < 0.3:
            x, y = jb(s), None
        elif k < 0.5:
            x, y = None, jb(s)
        else:
            n = rng.choice([0, 1, 2, 3, -1, -5, 7, 40, I64_MIN, -(2**40)]) if s else any_int(rng)
            x, y = (jb(s), ji(n)) if rng.random() < 0.5 else (ji(n), jb(s))
        return "bytes/null|int", x, y
    if r < 0.93:
        x, y = structured_pair(rng)
        return "structured", x, y
    x, y = safe_for_repeat(scalar_any(rng), scalar_any(rng))
    return "any/any", x, y


def is_finite_bits(b):
    return (b >> 52) & 0x7ff != 0x7ff


def gen_lit_case(rng):
    """numeric operands that can be written as VRL literals (all i64, finite floats), optionally nested
    `(x op y) op2 z`: exercises the compile-time constant evaluator against the run-time operators"""
    def number():
        if rng.random() < 0.55:
            return ji(any_int(rng)) if rng.random() < 0.7 else ji(rng.choice([0, 1, -1, 2, 3, 10, -7]))
        while True:
            b = any_float_bits(rng)
            if is_finite_bits(b):
                return jf_bits(b)
    r = rng.random()
    if r < 0.35:
        a, b = int_pair(rng)
        x, y = ji(a), ji(b)
    elif r < 0.55:
        while True:
            a, b = float_pair(rng)
            if is_finite_bits(a) and is_finite_bits(b):
                break
        x, y = jf_bits(a), jf_bits(b)
    elif r < 0.75:
        while True:
            z, b = mixed_pair(rng)
            if is_finite_bits(b):
                break
        x, y = (ji(z), jf_bits(b)) if rng.random() < 0.5 else (jf_bits(b), ji(z))
    else:
        x, y = number(), number()
    c = {"kind": "lit", "op": "literal", "x": x, "y": y}
    if rng.random() < 0.4:
        c["op"] = "literal-nested"
        c["op2"] = rng.choice(["add", "sub", "mul", "div"])
        c["z"] = number() if rng.random() < 0.8 else rng.choice([ji(0), jf_bits(0), jf_bits(1 << 63), ji(-1)])
    return c


def gen_cases(run, n, kind, lit_share=0.0):
    rng = run.rng
    cases = []
    for _ in range(n):
        if lit_share and rng.random() < lit_share:
            cases.append(gen_lit_case(rng))
            continue
        label, x, y = gen_pair(rng)
        x, y = safe_for_repeat(x, y)
        cases.append({"kind": kind, "op": label, "x": x, "y": y})
    return cases


# ---------------------------------------------------------------------------------------------
# rendering
# ---------------------------------------------------------------------------------------------

ERR = {"divzero": "EDivZero", "nan": "ENan", "type": "EType", "e": "EType"}


def coq_outcome(r):
    if "ok" in r:
        return "(Ok %s)" % coq_value(r["ok"])
    return "(Err %s)" % ERR[r["err"]]


def coq_table(ctor, ops, t):
    return "(%s %s)" % (ctor, " ".join(coq_outcome(t[o]) for o in ops))


def coq_opt_table(ctor, ops, t):
    return "None" if t is None else "(Some %s)" % coq_table(ctor, ops, t)


def _shared(head, tables):
    """Render `head t1 .. tn` where syntactically identical table terms are bound once by a let (pure common
    subexpression sharing: the term denotes the same thing; coqc spends ~1 ms per numeric literal it elaborates)."""
    names = {}
    lets = []
    args = []
    for t in tables:
        if t == "None":
            args.append(t)
            continue
        some = t.startswith("(Some ")
        body = t[len("(Some "):-1] if some else t
        if body not in names:
            names[body] = "t%d" % len(names)
            lets.append("let %s := %s in " % (names[body], body))
        args.append("(Some %s)" % names[body] if some else names[body])
    return "(%s%s %s)" % ("".join(lets), head, " ".join(args))


def cmp_to_coq(c, o):
    return _shared("Case %s %s" % (coq_value(c["x"]), coq_value(c["y"])),
                   [coq_table("Cmp6", CMP_OPS, o["direct"]), coq_table("Cmp6", CMP_OPS, o["e2e"]),
                    coq_opt_table("Cmp6", CMP_OPS, o["conv"])])


OPCODE = {"add": "OAdd", "sub": "OSub", "mul": "OMul", "div": "ODiv"}


def lit_to_coq(c, o):
    nest = "None"
    if c.get("z") is not None or "op2" in c:
        nest = "(Some (%s, %s))" % (OPCODE[c["op2"]], coq_value(c["z"]))
    folds = ["(Fold3 %s %s %s)" % (coq_outcome(o["res"][k]["plain"]), coq_outcome(o["res"][k]["zip"]),
                                   coq_outcome(o["res"][k]["var"])) for k in ("add", "sub", "mul", "div")]
    return _shared("CaseLit %s %s %s %s" % (coq_value(c["x"]), coq_value(c["y"]), nest,
                                            "true" if o["lit_ok"] else "false"), folds)


def arith_to_coq(c, o):
    if c["kind"] == "lit":
        return lit_to_coq(c, o)
    return _shared("Case %s %s" % (coq_value(c["x"]), coq_value(c["y"])),
                   [coq_table("Arith5", ARITH_OPS, o["direct"]), coq_table("Arith5", ARITH_OPS, o["e2e"]),
                    coq_opt_table("Arith5", ARITH_OPS, o["conv"]),
                    coq_opt_table("Arith5", ARITH_OPS, reference(c["x"], c["y"]))])


# ---------------------------------------------------------------------------------------------
# Python reference arithmetic (third opinion): unbounded ints masked to 64 bits, hardware doubles
# ---------------------------------------------------------------------------------------------

def wrap64(z):
    return (z + 2**63) % 2**64 - 2**63


def _num(v):
    if isinstance(v, dict) and "i" in v:
        return "i", int(v["i"])
    if isinstance(v, dict) and "f" in v:
        return "f", float_of_bits(int(v["f"], 16))
    return None, None


def _fres(x):
    if x != x:
        return {"err": "nan"}
    return {"ok": jf_bits(float_bits_of(x))}


def _fmod(x, y):
    if math.isinf(x) or y == 0.0:
        return float("nan")
    return math.fmod(x, y)


def _fdiv(x, y):
    if y == 0.0:            # not reached: zero divisors are rejected before
        return float("nan")
    return x / y


def reference(xj, yj):
    kx, x = _num(xj)
    ky, y = _num(yj)
    if kx is None or ky is None:
        return None
    if kx == "i" and ky == "i":
        t = {"add": {"ok": ji(wrap64(x + y))}, "sub": {"ok": ji(wrap64(x - y))}, "mul": {"ok": ji(wrap64(x * y))}}
        if y == 0:
            t["div"] = {"err": "divzero"}
            t["rem"] = {"err": "divzero"}
        else:
            t["div"] = _fres(_fdiv(float(x), float(y)))
            r = abs(x) % abs(y)
            t["rem"] = {"ok": ji(wrap64(-r if x < 0 else r))}
        return t
    fx, fy = float(x), float(y)
    t = {"add": _fres(fx + fy), "sub": _fres(fx - fy), "mul": _fres(fx * fy)}
    if fy == 0.0:
        t["div"] = {"err": "divzero"}
        t["rem"] = {"err": "divzero"}
    else:
        t["div"] = _fres(_fdiv(fx, fy))
        t["rem"] = _fres(_fmod(fx, fy))
    return t


# ---------------------------------------------------------------------------------------------
# the classical-reals axioms are allowed for one named theorem per property only
# ---------------------------------------------------------------------------------------------

def axiom_guard(prop, only, rc):
    """checklib.standard's allow-list is per property; this narrows it to the theorems in `only`: any other theorem
    whose Print Assumptions is not closed is reported as a broken proof obligation."""
    import json
    import os
    import vlib
    try:
        ev = json.load(open(os.path.join(vlib.VERIF, "evidence", "%s.json" % prop)))
        axioms = ev["coverage"].get("axioms", {})
    except Exception:
        return rc
    bad = {t: a for t, a in axioms.items() if a and t not in only}
    if not bad:
        return rc
    path = vlib.write_replay(prop, {"kind": "proof obligation no longer checks", "property": prop,
                                    "problems": [{"kind": "axiom", "detail": "%s depends on %s" % (t, ", ".join(a))}
                                                 for t, a in sorted(bad.items())]})
    print("VIOLATION property=%s replay=%s no-failing-input-found" % (prop, path))
    return 1
