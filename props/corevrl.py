"""Core-VRL program family shared by C06-C09, C13 (and others): AST generator, VRL pretty-printer,
Gallina renderer, runner.

AST nodes are tuples:
  ('lit', vjson) ('var', name) ('qext', pfx, path) ('qvar', name, path) ('qexpr', e, path)
  ('arr', [e]) ('obj', [(key, e)]) ('block', [e]) ('if', [c], [t], [f]|None) ('op', opc, a, b) ('not', e)
  ('assign', target, e) ('assigninf', ok, err, e, default_vjson) ('abort', e|None) ('return', e)
  ('call', fname, bang, [args]) ('closure', cf, arg, [params], [body])
targets: ('noop',) ('tvar', name, path) ('text', pfx, path);  pfx: 'event' | 'meta'
paths: list of {"f": hexkey} | {"i": "n"} as in vlib.
"""
import json

import vlib
from vlib import coq_value, coq_path, coq_hex, coq_opt, ji, js, jo, ja

OPS = {"mul": "*", "div": "/", "add": "+", "sub": "-", "or": "||", "and": "&&", "err": "??", "ne": "!=", "eq": "==",
       "ge": ">=", "gt": ">", "le": "<=", "lt": "<", "merge": "|"}
COQ_OPS = {"mul": "OMul", "div": "ODiv", "add": "OAdd", "sub": "OSub", "or": "OOr", "and": "OAnd", "err": "OErr",
           "ne": "ONe", "eq": "OEq", "ge": "OGe", "gt": "OGt", "le": "OLe", "lt": "OLt", "merge": "OMerge"}
CFN = {"for_each": "CForEach", "filter": "CFilter", "map_keys": "CMapKeys", "map_values": "CMapValues"}


# ------------------------------------------------------------------ VRL source printer

def vrl_str(b):
    s = bytes.fromhex(b).decode("utf-8")
    out = []
    for ch in s:
        if ch == '"':
            out.append('\\"')
        elif ch == "\\":
            out.append("\\\\")
        elif ch == "\n":
            out.append("\\n")
        elif ch == "\t":
            out.append("\\t")
        elif ch == "\r":
            out.append("\\r")
        elif ch == "{":
            out.append("\\{")      # template strings
        elif ord(ch) < 0x20:
            raise ValueError("control char in literal")
        else:
            out.append(ch)
    return '"' + "".join(out) + '"'


def vrl_lit(j):
    if j is None:
        return "null"
    if j is True:
        return "true"
    if j is False:
        return "false"
    if "b" in j:
        return vrl_str(j["b"])
    if "i" in j:
        i = int(j["i"])
        if i == -2**63:
            raise ValueError("i64::MIN has no literal")
        return str(i) if i >= 0 else "(%d)" % i
    if "f" in j:
        import struct
        x = struct.unpack("<d", struct.pack("<Q", int(j["f"], 16)))[0]
        r = repr(x)
        if "e" in r or "inf" in r or "nan" in r:
            raise ValueError("float literal not printable")
        return r if x >= 0 and not r.startswith("-") else "(%s)" % r
    if "o" in j:
        return "{ " + ", ".join("%s: %s" % (vrl_str(k), vrl_lit(v)) for k, v in j["o"]) + " }" if j["o"] else "{}"
    if "a" in j:
        return "[" + ", ".join(vrl_lit(v) for v in j["a"]) + "]"
    raise ValueError("no literal syntax for %r" % (j,))


def ident_like(s):
    import re
    return re.fullmatch(r"[a-z_][a-z0-9_]*", s) is not None


def vrl_path(p, first=True):
    out = []
    for i, s in enumerate(p):
        if "f" in s:
            k = bytes.fromhex(s["f"]).decode("utf-8")
            seg = k if ident_like(k) else vrl_str(s["f"])
            out.append(("" if (first and i == 0) else ".") + seg)
        else:
            out.append("[%d]" % int(s["i"]))
    return "".join(out)


def vrl_query_ext(pfx, p):
    lead = "." if pfx == "event" else "%"
    return lead + vrl_path(p, first=True)


def vrl_target(t):
    if t[0] == "noop":
        return "_"
    if t[0] == "tvar":
        name, p = t[1], t[2]
        if not p:
            return name
        rest = vrl_path(p, first=False)
        return name + rest
    return vrl_query_ext(t[1], t[2])


def vrl_block(es):
    return "{ " + "; ".join(vrl(e, stmt=True) for e in es) + " }"


def vrl(e, stmt=False):
    """stmt=True: printed in statement position (Block / program / assignment RHS): no wrapping needed."""
    k = e[0]
    if k == "lit":
        return vrl_lit(e[1])
    if k == "var":
        return e[1]
    if k == "qext":
        return vrl_query_ext(e[1], e[2])
    if k == "qvar":
        return e[1] + vrl_path(e[2], first=False)
    if k == "qexpr":
        inner = vrl(e[1])
        if e[1][0] not in ("arr", "obj", "block", "call", "closure") and not inner.startswith("("):
            inner = "(" + inner + ")"
        return inner + vrl_path(e[2], first=False)
    if k == "arr":
        return "[" + ", ".join(vrl(x) for x in e[1]) + "]"
    if k == "obj":
        return "{ " + ", ".join("%s: %s" % (vrl_str(kk), vrl(x)) for kk, x in e[1]) + " }" if e[1] else "{}"
    if k == "block":
        return vrl_block(e[1])
    if k == "if":
        c, t, f = e[1], e[2], e[3]
        cs = vrl(c[0]) if len(c) == 1 else "(" + "; ".join(vrl(x, stmt=False) if x[0] != "assign" else vrl(x, stmt=True) for x in c) + ")"
        s = "if %s %s" % (cs, vrl_block(t))
        if f is not None:
            s += " else %s" % vrl_block(f)
        return s if stmt else "{ " + s + " }"
    if k == "op":
        return "(%s %s %s)" % (vrl(e[2]), OPS[e[1]], vrl(e[3]))
    if k == "not":
        return "!" + vrl(e[1]) if e[1][0] in ("lit", "var", "qext", "call", "op", "block") else "!(" + vrl(e[1]) + ")"
    if k == "assign":
        s = "%s = %s" % (vrl_target(e[1]), vrl(e[2], stmt=True))
        return s if stmt else "(" + s + ")"
    if k == "assigninf":
        s = "%s, %s = %s" % (vrl_target(e[1]), vrl_target(e[2]), vrl(e[3], stmt=True))
        return s if stmt else "(" + s + ")"
    if k == "mergeassign":
        s = "%s |= %s" % (vrl_target(e[1]), vrl(e[2], stmt=True))
        return s if stmt else "(" + s + ")"
    if k == "abort":
        s = "abort" if e[1] is None else "abort " + vrl(e[1])
        return s if stmt else "{ " + s + " }"
    if k == "return":
        s = "return " + vrl(e[1])
        return s if stmt else "{ " + s + " }"
    if k == "call":
        return "%s%s(%s)" % (e[1], "!" if e[2] else "", ", ".join(vrl(a) for a in e[3]))
    if k == "closure":
        return "%s(%s) -> |%s| %s" % (e[1], vrl(e[2]), ", ".join(p if p else "_" for p in e[3]), vrl_block(e[4]))
    if k == "delext":
        return "del(%s%s)" % (vrl_query_ext(e[1], e[2]), ", compact: true" if e[3] else "")
    if k == "delvar":
        return "del(%s%s%s)" % (e[1], vrl_path(e[2], first=False), ", compact: true" if e[3] else "")
    if k == "existsext":
        return "exists(%s)" % vrl_query_ext(e[1], e[2])
    if k == "existsvar":
        return "exists(%s%s)" % (e[1], vrl_path(e[2], first=False))
    raise ValueError("unknown node %r" % (k,))


def vrl_program(es):
    return "\n".join(vrl(e, stmt=True) for e in es)


# ------------------------------------------------------------------ Gallina renderer

def coq_ident(name):
    return coq_hex(name.encode().hex())


def coq_pfx(p):
    return "PEvent" if p == "event" else "PMeta"


def coq_target(t):
    if t[0] == "noop":
        return "TNoop"
    if t[0] == "tvar":
        return "(TVar %s %s)" % (coq_ident(t[1]), coq_path(t[2]))
    return "(TExt %s %s)" % (coq_pfx(t[1]), coq_path(t[2]))


def coq_exprs(es):
    return "[%s]" % "; ".join(coq_expr(e) for e in es)


def coq_expr(e):
    k = e[0]
    if k == "lit":
        return "(ELit %s)" % coq_value(e[1])
    if k == "var":
        return "(EVar %s)" % coq_ident(e[1])
    if k == "qext":
        return "(EQExt %s %s)" % (coq_pfx(e[1]), coq_path(e[2]))
    if k == "qvar":
        return "(EQVar %s %s)" % (coq_ident(e[1]), coq_path(e[2]))
    if k == "qexpr":
        return "(EQExpr %s %s)" % (coq_expr(e[1]), coq_path(e[2]))
    if k == "arr":
        return "(EArr %s)" % coq_exprs(e[1])
    if k == "obj":
        kvs = sorted(((bytes.fromhex(kk), x) for kk, x in e[1]), key=lambda kv: kv[0])
        return "(EObj [%s])" % "; ".join("(%s, %s)" % (coq_hex(kk.hex()), coq_expr(x)) for kk, x in kvs)
    if k == "block":
        return "(EBlock %s)" % coq_exprs(e[1])
    if k == "if":
        f = "None" if e[3] is None else "(Some %s)" % coq_exprs(e[3])
        return "(EIf %s %s %s)" % (coq_exprs(e[1]), coq_exprs(e[2]), f)
    if k == "op":
        return "(EOp %s %s %s)" % (COQ_OPS[e[1]], coq_expr(e[2]), coq_expr(e[3]))
    if k == "not":
        return "(ENot %s)" % coq_expr(e[1])
    if k == "assign":
        return "(EAssign %s %s)" % (coq_target(e[1]), coq_expr(e[2]))
    if k == "assigninf":
        return "(EAssignInf %s %s %s %s)" % (coq_target(e[1]), coq_target(e[2]), coq_expr(e[3]), coq_value(e[4]))
    if k == "mergeassign":
        # Compiler::rewrite_to_merge: `t |= e` is `t = (t | e)` with the target re-read as a query
        t = e[1]
        q = ("var", t[1]) if (t[0] == "tvar" and not t[2]) else (("qvar", t[1], t[2]) if t[0] == "tvar" else ("qext", t[1], t[2]))
        return "(EAssign %s (EOp OMerge %s %s))" % (coq_target(t), coq_expr(q), coq_expr(e[2]))
    if k == "abort":
        return "(EAbort %s)" % ("None" if e[1] is None else "(Some %s)" % coq_expr(e[1]))
    if k == "return":
        return "(EReturn %s)" % coq_expr(e[1])
    if k == "call":
        return "(ECall %s %s)" % (coq_ident(e[1]), coq_exprs(e[3]))
    if k == "closure":
        return "(EClosure %s %s [%s] %s)" % (CFN[e[1]], coq_expr(e[2]), "; ".join(coq_ident(p) for p in e[3]), coq_exprs(e[4]))
    if k == "delext":
        return "(EDelExt %s %s %s)" % (coq_pfx(e[1]), coq_path(e[2]), "true" if e[3] else "false")
    if k == "delvar":
        return "(EDelVar %s %s %s)" % (coq_ident(e[1]), coq_path(e[2]), "true" if e[3] else "false")
    if k == "existsext":
        return "(EExistsExt %s %s)" % (coq_pfx(e[1]), coq_path(e[2]))
    if k == "existsvar":
        return "(EExistsVar %s %s)" % (coq_ident(e[1]), coq_path(e[2]))
    raise ValueError(k)


IMPORTS = ("From Coq Require Import List ZArith String.\n"
           "From VRL Require Import Base.Bytes Base.Value Base.Lit Model.ValueCrud Model.Expr Model.Eval Model.EvalInst Corr.Core.\n"
           "Local Open Scope string_scope.")


def coq_iout(res):
    if "ok" in res:
        return "(ISuccess %s)" % coq_value(res["ok"])
    if "abort" in res:
        return "(IAborted %s)" % ("None" if res["abort"] is None else "(Some %s)" % coq_hex(res["abort"]))
    if "error" in res or "abort_other" in res:
        return "IFailed"
    raise ValueError("unknown result %r" % (res,))


def to_coq(case, out):
    """case: {"ast": [...], "event":.., "meta":.., "vars":[names]} ; out: prog harness output (compile ok)."""
    if "panic" in out:
        raise ValueError("panic")
    names = case["vars"]
    return "mkCase %s %s %s [%s] [%s] %s %s %s [%s] [%s] [%s] [%s]" % (
        coq_exprs(case["ast"]), coq_value(case["event"]), coq_value(case.get("meta", {"o": []})),
        "; ".join(coq_ident(n) for n in names), "; ".join("true" if b else "false" for b in case.get("faults", [])),
        coq_iout(out["result"]), coq_value(out["event"]),
        coq_value(out["meta"]), "; ".join(coq_opt(out["vars"][n]) for n in names),
        "; ".join(coq_top(t) for t in out.get("log", [])),
        "; ".join("(%s, %s)" % (coq_pfx(t["pfx"]), coq_path(t["path"])) for t in out["info"]["queries"]),
        "; ".join("(%s, %s)" % (coq_pfx(t["pfx"]), coq_path(t["path"])) for t in out["info"]["assignments"]))


def coq_top(t):
    pfx = coq_pfx(t["pfx"])
    if t["op"] == "get":
        return "TGet %s %s" % (pfx, coq_path(t["path"]))
    if t["op"] == "ins":
        return "TIns %s %s" % (pfx, coq_path(t["path"]))
    if t["op"] == "rem":
        return "TRem %s %s %s" % (pfx, coq_path(t["path"]), "true" if t["compact"] else "false")
    raise ValueError("target operation %r has no model counterpart" % (t,))


def harness_case(case):
    return {"src": vrl_program(case["ast"]).encode().hex(), "event": case["event"], "meta": case.get("meta", {"o": []}),
            "vars": case["vars"], "faults": case.get("faults", []), "fault_mode": case.get("fault_mode", "err")}


# ------------------------------------------------------------------ random program generator

FIELDS = ["a", "b", "i", "s", "n", "l", "o", "go", "c"]
VARS = ["x", "y", "z"]
CLOSURE_PARAMS = ["k", "v", "idx"]
ASSERT_FNS = ["int", "string", "bool", "array", "object"]
DEFAULTS = {"int": ji(0), "string": js(""), "bool": False, "array": ja([]), "object": jo([])}


def f(name):
    return {"f": name.encode().hex()}


class Gen:
    """Weighted grammar with a light type discipline so that most programs compile:
    .field queries are `any` (operations on them are fallible), variables hold infallible values."""

    def __init__(self, rng, fields=FIELDS):
        self.rng = rng
        self.fields = fields
        self.defined = []          # variables in scope
        self.marker = 0

    def lit(self):
        r = self.rng
        c = r.random()
        if c < 0.3:
            return ("lit", ji(r.choice([0, 1, 2, 3, 7, -1, 42, 2**53 + 1])))
        if c < 0.55:
            return ("lit", js(r.choice(["", "a", "b", "x y", "é", "q\"t", "z"])))
        if c < 0.7:
            return ("lit", r.choice([True, False]))
        if c < 0.8:
            return ("lit", None)
        if c < 0.9:
            return ("lit", ja([ji(r.randint(0, 3)) for _ in range(r.randint(0, 3))]))
        return ("lit", jo([(k, ji(r.randint(0, 3))) for k in r.sample(["p", "q", "r"], r.randint(0, 2))]))

    def path(self, maxlen=2):
        r = self.rng
        p = []
        for _ in range(r.choice([0, 0, 1, 1, 2][:maxlen * 2 + 1])):
            p.append(f(r.choice(["p", "q", "c d"])) if r.random() < 0.6 else {"i": str(r.randint(-2, 2))})
        return p

    def query(self):
        r = self.rng
        c = r.random()
        if c < 0.75:
            return ("qext", "event", [f(r.choice(self.fields))] + self.path(1))
        if c < 0.85:
            return ("qext", "meta", [f(r.choice(["m1", "m2"]))])
        if self.defined and c < 0.97:
            return ("qvar", r.choice(self.defined), self.path(2) or [f("p")])
        return ("qext", "event", [])

    def inf(self, d):
        """an infallible expression"""
        r = self.rng
        c = r.random()
        if d <= 0 or c < 0.25:
            c2 = r.random()
            if c2 < 0.4:
                return self.lit()
            if c2 < 0.6 and self.defined:
                return ("var", r.choice(self.defined))
            return self.query()
        if c < 0.33:
            return ("arr", [self.inf(d - 1) for _ in range(r.randint(0, 3))])
        if c < 0.4:
            ks = r.sample(["p", "q", "r", "c d"], r.randint(0, 3))
            return ("obj", [(k.encode().hex(), self.inf(d - 1)) for k in ks])
        if c < 0.52:
            return ("op", "err", self.fal(d - 1), self.inf(d - 1))
        if c < 0.6:
            return ("op", r.choice(["eq", "ne"]), self.inf(d - 1), self.inf(d - 1))
        if c < 0.68:
            return ("op", "or", self.inf(d - 1), self.inf(d - 1))
        if c < 0.76:
            return ("if", [self.boolean(d - 1)], self.stmts(d - 1, 2, self.inf), self.stmts(d - 1, 2, self.inf) if r.random() < 0.7 else None)
        if c < 0.84:
            return ("block", self.stmts(d - 1, 3, self.inf))
        if c < 0.9:
            return ("assign", self.target(), self.inf(d - 1))
        if c < 0.92:
            return ("call", r.choice(["is_null", "is_string"]), False, [self.inf(d - 1)])
        if c < 0.95:
            c3 = r.random()
            tp = [f(r.choice(self.fields + ["w1"]))] + self.path(1)
            if c3 < 0.45:
                return ("delext", "event", tp, r.random() < 0.4)
            if c3 < 0.55:
                return ("delext", "meta", [f(r.choice(["m1", "m2"]))], False)
            if c3 < 0.85 or not self.defined:
                return ("existsext", "event", tp)
            return ("existsvar", r.choice(self.defined), self.path(2) or [f("p")])
        if c < 0.97:
            return ("qexpr", ("obj", [(k.encode().hex(), self.inf(d - 1)) for k in r.sample(["p", "q", "r"], r.randint(1, 3))]),
                    [f(r.choice(["p", "q"]))] + self.path(1))
        return self.boolean(d - 1)

    def equery(self):
        """an any-typed event query (operations on it are fallible)"""
        r = self.rng
        return ("qext", "event", [f(r.choice(self.fields))] + (self.path(1) if r.random() < 0.3 else []))

    def fal(self, d):
        """a fallible expression"""
        r = self.rng
        c = r.random()
        if d <= 0 or c < 0.45:
            return ("call", r.choice(ASSERT_FNS + ["length"]), False, [self.equery()])
        if c < 0.7:
            return ("op", r.choice(["add", "sub", "mul", "div", "gt", "lt", "ge", "le"]), self.equery(),
                    self.equery() if r.random() < 0.5 else ("lit", ji(r.choice([0, 1, 2, 3]))))
        if c < 0.8:
            return ("block", self.stmts(d - 1, 2, self.inf) + [self.fal(d - 1)])
        if c < 0.9:
            return ("op", "and", self.equery(), self.boolean(d - 1))
        return ("op", "err", self.fal(d - 1), self.fal(d - 1))

    def boolean(self, d):
        r = self.rng
        c = r.random()
        if d <= 0 or c < 0.3:
            c2 = r.random()
            if c2 < 0.5:
                return ("op", "eq", self.query(), self.lit())
            if c2 < 0.6:
                return ("existsext", "event", [f(r.choice(self.fields))] + self.path(1))
            if c2 < 0.7:
                return ("lit", r.choice([True, False]))
            return ("call", "is_null", False, [self.query()])
        if c < 0.45:
            return ("not", self.boolean(d - 1))
        if c < 0.6:
            return ("op", r.choice(["and", "or"]), self.boolean(d - 1), self.boolean(d - 1))
        if c < 0.75:
            return ("op", "err", ("call", "bool", False, [self.equery()]), self.boolean(d - 1))
        if c < 0.85:
            return ("op", r.choice(["eq", "ne"]), self.inf(d - 1), self.inf(d - 1))
        return ("block", self.stmts(d - 1, 2, self.inf) + [self.boolean(d - 1)])

    def target(self):
        r = self.rng
        c = r.random()
        if c < 0.4:
            v = r.choice(VARS)
            # a path assignment to an undefined variable is fine (creates it)
            p = self.path(2) if r.random() < 0.3 else []
            self._pending_def = v
            return ("tvar", v, p)
        if c < 0.9:
            return ("text", "event", [f(r.choice(self.fields + ["w1", "w2"]))] + self.path(1))
        return ("text", "meta", [f(r.choice(["m1", "m2"]))])

    def stmt(self, d):
        r = self.rng
        c = r.random()
        if c < 0.35:
            t = self.target()
            e = self.inf(d)
            if t[0] == "tvar" and t[1] not in self.defined:
                self.defined.append(t[1])
            return ("assign", t, e)
        if c < 0.5:
            fn = r.choice(ASSERT_FNS)
            call = ("call", fn, False, [self.equery()])
            # the error message text is not modelled: it goes only where no later expression computes on it
            ok = self.target()
            er = r.choice([("tvar", "ev", []), ("text", "event", [f("e1")]), ("text", "meta", [f("e2")]), ("noop",)])
            if ok[0] == "tvar" and ok[1] not in self.defined:
                self.defined.append(ok[1])
            return ("assigninf", ok, er, call, DEFAULTS[fn])
        if c < 0.62:
            saved = list(self.defined)
            s = ("if", [self.boolean(d)], self.stmts(d - 1, 3, self.inf), self.stmts(d - 1, 2, self.inf) if r.random() < 0.5 else None)
            self.defined = saved
            return s
        if c < 0.72:
            return self.closure(d)
        if c < 0.78:
            return ("if", [self.boolean(d)], [("return", self.inf(d - 1))], None)
        if c < 0.82:
            return ("if", [self.boolean(d)], [("abort", ("lit", js(r.choice(["m", "stop", ""]))) if r.random() < 0.7 else None)], None)
        if c < 0.86:
            m = self.marker
            self.marker += 1
            return ("assign", ("text", "event", [f("mk%d" % m)]), ("lit", True))
        if c < 0.89:
            # `|=`: make the target an object first so that the merge is typed infallible
            t = ("tvar", r.choice(VARS), []) if r.random() < 0.5 else ("text", "event", [f(r.choice(["w1", "w2"]))])
            obj = lambda: ("obj", [(k.encode().hex(), self.inf(max(d - 1, 0))) for k in r.sample(["p", "q", "r"], r.randint(0, 2))])
            return ("block", [("assign", t, obj()), ("mergeassign", t, obj())])
        return self.inf(d)

    def stmts(self, d, n, last):
        saved = list(self.defined)
        out = [self.stmt(d) for _ in range(self.rng.randint(0, max(0, n - 1)))]
        out.append(last(d))
        self.defined = saved
        return out

    def closure(self, d):
        r = self.rng
        cf = r.choice(list(CFN))
        coll = self.equery()
        # the compiler wants an object/array-typed argument: coerce the any-typed query
        if cf == "map_keys":
            arg = ("op", "err", ("call", "object", False, [coll]), ("lit", jo([("p", ji(1)), ("q", ji(2))]))) if coll[0] != "lit" or "o" not in (coll[1] or {}) else coll
            params = [r.choice(CLOSURE_PARAMS[:1] + VARS[:1])]
        else:
            kind = r.choice(["object", "array"])
            dflt = jo([("p", ji(1)), ("q", ji(2))]) if kind == "object" else ja([ji(1), js("a"), ji(3)])
            arg = ("op", "err", ("call", kind, False, [coll]), ("lit", dflt))
            params = [r.choice(["v", "x"])] if cf == "map_values" else [r.choice(["k", "idx", "y"]), r.choice(["v", "x"])]
        saved = list(self.defined)
        self.defined = saved + [p for p in params if p not in saved]
        pre = [self.stmt(d - 1) for _ in range(r.randint(0, 2))]
        if r.random() < 0.35:
            pre.append(("if", [self.boolean(d - 1)], [("return", self.lit() if cf != "filter" else ("lit", r.choice([True, False])))], None))
        if cf == "filter":
            last = self.boolean(d - 1)
        elif cf == "map_keys":
            last = r.choice([("var", params[0]), ("lit", js(r.choice(["kk", "p", "zz"]))),
                             ("op", "add", ("var", params[0]), ("lit", js("_s")))])
        else:
            last = self.inf(d - 1)
        self.defined = saved
        body = pre + [last]
        node = ("closure", cf, arg, params, body)
        if r.random() < 0.6:
            t = ("tvar", r.choice(VARS), [])
            if t[1] not in self.defined:
                self.defined.append(t[1])
            return ("assign", t, node)
        return node

    def program(self, d=3, n=6):
        self.defined = []
        self.marker = 0
        out = [self.stmt(d) for _ in range(self.rng.randint(1, n))]
        out.append(self.inf(d))
        return out


def rand_event(rng):
    pool = [ji(1), ji(2), ji(0), js("a"), js("abc"), True, False, None, ja([ji(1), ji(2), ji(3)]), ja([]),
            jo([("p", ji(1)), ("q", js("s"))]), jo([]), ja([js("a"), ji(2), None]), jo([("p", jo([("q", True)]))])]
    kvs = []
    for k in FIELDS:
        if rng.random() < 0.8:
            kvs.append((k, rng.choice(pool)))
    return jo(kvs)


def gen_random_cases(run, n):
    g = Gen(run.rng)
    cases = []
    while len(cases) < n:
        try:
            ast = g.program()
            vrl_program(ast)
        except ValueError:
            continue
        ev = rand_event(run.rng)
        meta = jo([("m1", ji(5))] if run.rng.random() < 0.5 else [])
        cases.append({"kind": "random", "ast": ast, "event": ev, "meta": meta, "vars": VARS + CLOSURE_PARAMS + ["ev"]})
    return cases


# ------------------------------------------------------------------ running

def run_cases(prop, cases):
    """compile + run every case on the implementation; model check for those that compiled.
    Returns (outs, compiled_idx, bad_check, failed, err)."""
    outs = vlib.run_harness("prog", [harness_case(c) for c in cases])
    compiled = [i for i, o in enumerate(outs) if o.get("compile") == "ok"]
    # a panic while compiling is C04's subject: the program yields no run to judge (outs[i]["compile"] == "panic")
    failed = [i for i, o in enumerate(outs) if any(k in o for k in ("panic", "crash", "timeout", "harness_error"))]
    terms, keep = [], []
    for i in compiled:
        if not outs[i].get("consistent", True):
            failed.append(i)
            continue
        try:
            terms.append(to_coq(cases[i], outs[i]))
            keep.append(i)
        except Exception as e:
            outs[i]["render_error"] = repr(e)
    bad, err = vlib.run_model_checks(prop, IMPORTS, terms, check="check", shard=150, tag="core")
    return outs, compiled, [keep[b] for b in bad], sorted(set(failed)), err


# ------------------------------------------------------------------ targeted builders (oracles do not use the model)

def lit(v):
    return ("lit", v)


def ev_field(name):
    return ("qext", "event", [f(name)])


def set_field(name, e):
    return ("assign", ("text", "event", [f(name)]), e)


def mark(name):
    return set_field(name, lit(True))


def event_has(out, name):
    return any(bytes.fromhex(k).decode() == name for k, _ in out["event"].get("o", []))


def event_get(out, name):
    for k, v in out["event"].get("o", []):
        if bytes.fromhex(k).decode() == name:
            return v
    return "absent"


def event_keys(out):
    return [bytes.fromhex(k).decode() for k, _ in out["event"].get("o", [])]


class CtxBuilder:
    """Wraps a hole expression in 1..depth nested evaluation contexts.  Every context may add marker
    assignments evaluated before (`pre_*`) and after (`post_*`) the hole in evaluation order.
    Kinds: 'inf' (infallible any), 'bool' (infallible boolean), 'fal' (fallible), 'obj' (object-typed)."""

    def __init__(self, rng):
        self.rng = rng
        self.n = 0

    def fresh(self, prefix):
        self.n += 1
        return "%s_%d" % (prefix, self.n)

    def pre(self):
        return mark(self.fresh("pre"))

    def post(self):
        return mark(self.fresh("post"))

    # (name, needs, gives, builder)
    def contexts(self):
        r = self.rng
        return [
            ("errL", "fal", "inf", lambda h: ("op", "err", h, lit(ji(3)))),
            ("errR", "inf", "inf", lambda h: ("op", "err", ("call", "int", False, [ev_field("s")]), h)),
            ("assigninf", "fal", "inf", lambda h: ("assigninf", ("tvar", "ok1", []), ("tvar", "err1", []), h, ji(0))),
            ("arg", "inf", "bool", lambda h: ("call", "is_null", False, [h])),
            ("argfal", "inf", "fal", lambda h: ("call", "int", False, [h])),
            ("arr", "inf", "inf", lambda h: ("arr", [self.pre(), h, self.post()])),
            ("obj", "inf", "inf", lambda h: ("obj", [("a".encode().hex(), self.pre()), ("b".encode().hex(), h), ("c".encode().hex(), self.post())])),
            ("ifpred", "bool", "inf", lambda h: ("if", [h], [self.post(), lit(ji(1))], [self.post(), lit(ji(2))])),
            ("ifthen", "inf", "inf", lambda h: ("if", [("op", "eq", ev_field("t"), lit(True))], [self.pre(), h, self.post()], [lit(ji(0))])),
            ("ifelse", "inf", "inf", lambda h: ("if", [("op", "eq", ev_field("t"), lit(False))], [lit(ji(0))], [self.pre(), h, self.post()])),
            ("opL", "inf", "bool", lambda h: ("op", "eq", h, self.post())),
            ("opR", "inf", "bool", lambda h: ("op", "eq", self.pre(), h)),
            ("orR", "inf", "inf", lambda h: ("op", "or", lit(None), h)),
            ("orL", "inf", "inf", lambda h: ("op", "or", h, self.post())),
            ("andR", "bool", "bool", lambda h: ("op", "and", lit(True), h)),
            ("andL", "bool", "bool", lambda h: ("op", "and", h, ("block", [self.post(), lit(True)]))),
            ("not", "bool", "bool", lambda h: ("not", h)),
            ("assign", "inf", "inf", lambda h: ("assign", ("text", "event", [f(self.fresh("post_tgt"))]), h)),
            ("assignvar", "inf", "inf", lambda h: ("assign", ("tvar", "tmpv", []), h)),
            ("qexpr", "inf", "inf", lambda h: ("qexpr", ("obj", [("p".encode().hex(), h)]), [f("p")])),
            ("block", "any", "same", lambda h: ("block", [self.pre(), h] if r.random() < 0.5 else [self.pre(), h])),
            ("closurearg", "obj", "inf", lambda h: ("closure", "map_values", h, ["cv"], [self.post(), ("var", "cv")])),
            ("returnarg", "inf", "never", None),
        ]

    def build(self, make_hole, depth):
        """make_hole(kind) -> hole expression of that kind.  Returns (expr, kind, names of contexts)."""
        r = self.rng
        ctxs = [c for c in self.contexts() if c[3] is not None]
        first = r.choice(ctxs)
        need = first[1] if first[1] != "any" else r.choice(["inf", "bool", "fal"])
        e = make_hole(need)
        kind = need
        names = []
        cur = first
        for _ in range(depth):
            ok = [c for c in ctxs if c[1] == "any" or c[1] == kind or (c[1] == "inf" and kind == "bool")]
            if not ok:
                break
            cur = r.choice(ok) if names else (first if (first[1] == "any" or first[1] == kind) else r.choice(ok))
            e = cur[3](e)
            kind = kind if cur[2] == "same" else cur[2]
            names.append(cur[0])
        return e, kind, names


TAILS = {"inf": lit(ji(7)), "bool": lit(True), "fal": ("call", "int", False, [ev_field("i")]),
         "obj": lit(jo([("p", ji(1))]))}


def finish_stmt(e, kind):
    """make a root statement out of an expression of the given kind"""
    if kind == "fal":
        e = ("op", "err", e, lit(js("dflt")))
    return ("assign", ("tvar", "r", []), e)


BASE_EVENT = [("i", ji(5)), ("s", js("str")), ("t", True), ("go", True)]


def standard_main(run, pid, theorems, manifest, targeted, oracle, args, n_random=None, n_targeted=None):
    """proof leg + correspondence (targeted + random programs vs the model) + the property's own oracle
    evaluated on the implementation's outputs alone."""
    import checklib
    if args.replay:
        r = json.load(open(args.replay))
        vlib.build_harness("prog")
        cases = [r["case"]]
        outs, compiled, bad, failed, err = run_cases(pid, cases)
        why = oracle(cases[0], outs[0]) if cases[0].get("kind") == "targeted" and 0 in compiled else None
        print(json.dumps({"source": vrl_program(cases[0]["ast"]), "impl": outs[0], "model_agrees": not bad and not failed, "oracle": why}))
        if bad or failed or why:
            print("VIOLATION property=%s replay=%s" % (pid, args.replay))
            return 1
        return 0
    quick = run.tier == "quick"
    n_random = n_random or (1200 if quick else 10000)
    n_targeted = n_targeted or (800 if quick else 6000)
    pl = vlib.proof_leg(pid, theorems)
    for pr in pl["problems"]:
        vlib.log("proof-leg problem:", pr["kind"], pr["detail"][:400])
    build_s = vlib.build_harness("prog")
    corpus = [dict(c, ast=json.loads(json.dumps(c["ast"]))) for c in checklib.load_corpus(pid)]
    tcases = targeted(run, n_targeted)
    rcases = gen_random_cases(run, n_random)
    cases = corpus + tcases + rcases
    outs, compiled, bad_check, failed, err = run_cases(pid, cases)
    cset = set(compiled)
    oracle_fail = []
    judged = 0
    for i, c in enumerate(cases):
        if c.get("kind") == "targeted" and i in cset and i not in failed:
            judged += 1
            why = oracle(c, outs[i])
            if why:
                oracle_fail.append((i, why))
    known = vlib.known_findings(pid)
    reported = 0
    for i, why in oracle_fail:
        if reported >= 3:
            break
        reported += 1
        run.violation({"kind": "property fails on the implementation", "why": why, "case": cases[i],
                       "source": vrl_program(cases[i]["ast"]), "impl": outs[i], "model_agrees_with_impl": i not in bad_check})
    # a panic of the host is C04's (and, under injected faults, C17's) subject; for the other properties a
    # program whose compilation or run panics yields no observation and is only counted
    hard = [i for i in failed if pid in ("C04", "C17") or not any(k in outs[i] for k in ("panic", "crash"))]
    for i in hard[:3]:
        run.violation({"kind": "implementation panicked / crashed / runs disagree", "case": cases[i],
                       "source": vrl_program(cases[i]["ast"]), "impl": outs[i]})
    if bad_check and not run.violations:
        i = min(bad_check, key=lambda k: len(json.dumps(cases[k]["ast"])))
        mo = vlib.eval_model(pid, IMPORTS, "model_out (%s)" % to_coq(cases[i], outs[i]))
        run.violation({"kind": "correspondence broken: model and implementation disagree",
                       "correspondence_suite": "Core-VRL programs (prog family)", "case": cases[i],
                       "source": vrl_program(cases[i]["ast"]), "impl": outs[i], "model": mo[-3000:],
                       "disagreements": len(bad_check), "theorems_about_model": theorems,
                       "searched": "%d targeted cases judged by the property's own oracle, none failed" % judged}, nofail=True)
    if err and not run.violations:
        run.violation({"kind": "model evaluation failed", "detail": err}, nofail=True)
    if pl["problems"] and not any(not nf for _, nf in run.violations):
        run.violation({"kind": "proof obligation no longer checks", "theorems": theorems, "problems": pl["problems"][:10]}, nofail=True)
    tcomp = sum(1 for i, c in enumerate(cases) if c.get("kind") == "targeted" and i in cset)
    if len(tcases) and tcomp < 0.5 * len(tcases) and not run.violations:
        msgs = {}
        for i, c in enumerate(cases):
            if c.get("kind") == "targeted" and i not in cset:
                for d in outs[i].get("diags", [])[:1]:
                    msgs[d["message"]] = msgs.get(d["message"], 0) + 1
        run.violation({"kind": "targeted programs no longer compile (the compiler's acceptance changed)",
                       "compiled": tcomp, "generated": len(tcases), "diagnostics": msgs}, nofail=True)
    hist = {}
    for i in compiled:
        k = list(outs[i]["result"].keys())[0]
        hist[k] = hist.get(k, 0) + 1
    ctxhist = {}
    for c in tcases:
        for nm_ in c.get("meta_info", {}).get("ctx", []):
            ctxhist[nm_] = ctxhist.get(nm_, 0) + 1
    cov = {
        "obligations": pl["obligations"], "discharged": pl["discharged"],
        "checker_cmd": "make -C coq Properties/%s.vo (coqc 8.16.1 full .vo build) + Print Assumptions + pinned statements" % pid,
        "trusted_base": ["Coq 8.16.1 kernel incl. vm_compute", "hand-written Gallina model Model/Eval.v (tied by the correspondence run)",
                         "Model/Arith.v operators and 8 stdlib functions as the executable instance (theorems hold for all F, binop)",
                         "Rust harness prog + JSON codec", "Python generator, VRL pretty-printer, Gallina renderer"],
        "axioms": pl.get("axioms", {}),
        "evaluations": len(cases), "distinct_nontrivial": len({vrl_program(cases[i]["ast"]) for i in compiled}),
        "rule": "targeted programs (the property's construct under nested contexts, markers before/after) + random Core-VRL programs, "
                "pretty-printed to VRL source, compiled by the real compiler, run by Runtime::resolve; non-trivial = compiled; seed %d" % run.seed,
        "programs_generated": len(cases), "programs_compiled": len(compiled), "targeted_generated": len(tcases),
        "targeted_compiled": tcomp, "targeted_judged_by_oracle": judged, "oracle_failures": len(oracle_fail),
        "traces_validated_against_impl": len(compiled), "correspondence_disagreements": len(bad_check),
        "impl_panics_or_crashes": len(failed), "outcome_histogram": hist, "context_histogram": ctxhist,
        "samples": [{"source": vrl_program(c["ast"]), "event": c["event"], "impl_result": outs[i].get("result")}
                    for i, c in list(enumerate(cases))[:3]],
        "harness_build_s": round(build_s, 1),
    }
    return run.finish(cov)
