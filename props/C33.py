"""C33 — Diagnostics are always renderable and point into the source."""
import re

import vlib
from vlib import coq_bool
import corevrl

ID = "C33"
THEOREMS = ["C33_assign_in_bounds", "C33_assign_ordered", "C33_assign_boundary_partial", "C33_assign_boundary_refuted",
            "C33_assign_parent_order_refuted"]
IMPORTS = ("From Coq Require Import List NArith String.\n"
           "From VRL Require Import Base.Bytes Base.Lit Model.SpanArith Corr.C33.\n"
           "Local Open Scope string_scope.\nLocal Open Scope N_scope.")
MANIFEST = {
    "level": "exploration",
    "technique": "differential exploration of the compiler's diagnostics (generated, mutated and unicode-decorated sources "
                 "through vrl::compiler::compile + diagnostic::Formatter) + Coq proof about a hand model of the one piece "
                 "of span arithmetic the compiler does itself (verify_overwritable), tied by correspondence",
    "text": "Partial. Every label position except those of E642 comes from the lexer, the LALRPOP parser and the compiler, "
            "which are not modelled: for those the check is exploration on the implementation only -- for every generated "
            "source (valid Core-VRL programs, token- and character-level mutations, unicode identifiers / fields / strings / "
            "white space, CRLF, unterminated literals, escapes, long lines, one template per compile-error class) every "
            "diagnostic (errors, or warnings of a successful compilation) must have ordered labels inside the text on "
            "character boundaries, and Formatter must render it plain and colored without error or panic. Proved (Coq, "
            "closed) about Model/SpanArith.v, the model of verify_overwritable's saturating_sub arithmetic over the printed "
            "length of each path segment: the reported spans are inside the text and the segment span is ordered for any "
            "path; both are ordered and inside the target when the printed path is no longer than the target text; both "
            "lie on character boundaries when the target text is ASCII. Refuted: a quoted field with a multi-byte "
            "character and escape sequences puts a label inside a character (known finding, replayed). The exploration "
            "found three more classes of labels off character boundaries, in the lexer and in Assignment::new "
            "(known findings). No rendering failure and no panic was found: codespan tolerates such positions.",
    "note": "Trusted: Coq kernel + vm_compute; the hand model of verify_overwritable (tied by comparing its spans with the "
            "E642 labels on generated assignments, the printed segment lengths coming from the implementation's own "
            "Display); str::is_char_boundary is modelled on bytes and compared with the implementation on every label. "
            "The kind test of verify_overwritable is a parameter of the model. Named gap: lexer, parser, compiler spans "
            "and codespan_reporting are not modelled; the verdict for them is exploration only. No axioms.",
    "design_ref": "DESIGN.md section 5 C33; notes/C33.md",
}


def h(s):
    return (s.encode("utf-8") if isinstance(s, str) else bytes(s)).hex()


UNI = ["\u00e9", "\u00fc", "\u00df", "\u65e5\u672c", "\u8a9e", "\U0001F389", "\U0001F469\u200d\U0001F469\u200d\U0001F467",
       "e\u0301", "a\u0323\u0308", "\u05e9\u05dc\u05d5\u05dd", "\u0645\u0631\u062d\u0628\u0627", "\u202eabc\u202c", "\u03a9",
       "\u0131", "\ufb01", "\U0001D4B3", "\u00a0", "\u3000", "\u2003", "\u200b", "\ufeff", "\u2028", "\u0085", "\u0300"]
WS = ["\u00a0", "\u3000", "\u2003", "\u2028", "\u0085", "\t", "  ", "\u1680", "\u202f", "\u000b", "\u000c"]
STRAY = ['"', "'", "(", ")", "[", "]", "{", "}", "|", "->", "=", "??", "!", ",", ";", ".", "%", "@", "\\", "{{", "}}", "#",
         "r'", "t'", "s'", "\\u{", "\\u{1F600}", "\\u{110000}", "\\x", "..", "?", "&&", "||", "/", "-", ":", "$", "`", "~",
         "^", "if", "else", "abort", "return", "null", "true", "_", "\n", "\r\n", "\\\n"]

TOKEN_RE = re.compile(r'"(?:[^"\\]|\\.)*"|\'(?:[^\'\\]|\\.)*\'|[A-Za-z_@][A-Za-z0-9_@]*|\d+(?:\.\d+)?|\s+|\?\?|\|\||&&|==|!=|>=|<=|->|.', re.S)


def tokens(src):
    return TOKEN_RE.findall(src)


def rand_uni(rng, n=None):
    return "".join(rng.choice(UNI) for _ in range(n or rng.randint(1, 3)))


# ------------------------------------------------------------------------------------------------
# (a) valid programs
# ------------------------------------------------------------------------------------------------

def valid_program(rng, g):
    while True:
        try:
            return corevrl.vrl_program(g.program(d=rng.choice([2, 3]), n=rng.choice([2, 4, 6])))
        except ValueError:
            continue


# ------------------------------------------------------------------------------------------------
# (b) mutations
# ------------------------------------------------------------------------------------------------

def mutate_tokens(rng, src):
    toks = tokens(src)
    if not toks:
        return src
    for _ in range(rng.choice([1, 1, 2, 3])):
        if not toks:
            break
        i = rng.randrange(len(toks))
        r = rng.random()
        if r < 0.2:
            del toks[i]
        elif r < 0.35:
            toks.insert(i, toks[i])
        elif r < 0.5 and i + 1 < len(toks):
            toks[i], toks[i + 1] = toks[i + 1], toks[i]
        elif r < 0.8:
            toks.insert(i, rng.choice(STRAY))
        elif r < 0.9:
            toks.insert(i, rand_uni(rng, 1))
        else:
            toks = toks[:i]
    return "".join(toks)


def mutate_chars(rng, src):
    if not src:
        return src
    s = list(src)
    for _ in range(rng.choice([1, 1, 2, 4])):
        if not s:
            break
        i = rng.randrange(len(s))
        r = rng.random()
        if r < 0.25:
            del s[i]
        elif r < 0.5:
            s[i] = rng.choice(UNI + STRAY)
        elif r < 0.8:
            s.insert(i, rng.choice(UNI + STRAY))
        else:
            s = s[:i]
    return "".join(s)


# ------------------------------------------------------------------------------------------------
# (c) unicode decoration
# ------------------------------------------------------------------------------------------------

def decorate(rng, src):
    r = rng.random()
    if r < 0.15:        # a unicode comment or statement in front (shifts every later offset)
        return rng.choice(["# %s\n", '"%s"\n', "# %s\r\n", '"%s"; ', "x0 = \"%s\"\n"]) % rand_uni(rng) + src
    if r < 0.35:        # white space variants
        ws = rng.choice(WS)
        out = []
        in_str = False
        for ch in src:
            if ch == '"':
                in_str = not in_str
            out.append(ws if (ch == " " and not in_str and rng.random() < 0.5) else ch)
        return "".join(out)
    if r < 0.6:         # unicode inside string literals
        def repl(m):
            body = m.group(0)[1:-1]
            ins = rng.choice([rand_uni(rng), rand_uni(rng) + "{{ " + rng.choice(["x", "nope", ".a", "1 +", "é"]) + " }}",
                              "\\u{%x}" % rng.choice([0xe9, 0x1F600, 0x10FFFF, 0xD800, 0x110000]), "\\" + rng.choice("ntr0\\\"'{}xéq"),
                              "{{", "}}", "\\{{ x \\}}", rand_uni(rng) + "\\\n   " + rand_uni(rng)])
            k = rng.randint(0, len(body))
            return '"' + body[:k] + ins + body[k:] + '"'
        return re.sub(r'"(?:[^"\\]|\\.)*"', lambda m: repl(m) if rng.random() < 0.7 else m.group(0), src)
    if r < 0.75:        # unicode identifiers / fields
        toks = tokens(src)
        idx = [i for i, t in enumerate(toks) if re.fullmatch(r"[A-Za-z_][A-Za-z0-9_]*", t)]
        if idx:
            i = rng.choice(idx)
            toks[i] = rng.choice([rand_uni(rng, 1), toks[i] + rand_uni(rng, 1), rand_uni(rng, 1) + toks[i],
                                  '"' + rand_uni(rng) + '"'])
        return "".join(toks)
    if r < 0.85:
        return src.replace("\n", "\r\n") + rng.choice(["", "\r", "\\", "\r\n\\"])
    if r < 0.93:        # unterminated literals at the end
        return src + rng.choice(['\n"', "\n'", "\nr'", "\nt'", "\ns'", '\n"é', "\nr'(é", "\nt'2020-é", '\n"\\', '\n"\\u{', '\n"{{',
                                 '\n"' + rand_uni(rng), "\n# " + rand_uni(rng), "\n" + rand_uni(rng), '\n"a\\'])
    # a very long line
    return src + "\n" + rng.choice(['"%s"', "# %s", ".a = [%s]", "%s"]) % (rng.choice(["é", "a", "1, ", "日本"]) * rng.choice([500, 3000]))


# ------------------------------------------------------------------------------------------------
# (d) one template per compile-error class
# ------------------------------------------------------------------------------------------------

ERROR_TEMPLATES = [
    "nope", "nope + 1", ".a = nope", "x = 1\ny", "upcase(nope)",                                   # undefined variable
    ".a = to_int(.b)", "x = parse_json(.m)", ".a = upcase(.b)", ".a = .b + 1", "x = 1 / .c",        # fallible assignment
    "to_int(.b)", "parse_json(.m)", "1 / .c; 2",                                                    # unhandled fallible
    '1 + "a"', "upcase(1)", "to_int([1])", 'contains("a", 1)', "slice(1, 2)",                      # type mismatch / argument kind
    "1 ?? 2", '"a" ?? "b"', "to_string(1) ?? 2", "(1 ?? 2) ?? 3",                                   # unnecessary coalesce
    "foo(1)", "to_integer(1)", "upcas(.a)", "foo!(.a)", "a.b()",                                    # unknown function
    "upcase()", "upcase(1, 2)", 'upcase(valu: "a")', 'upcase("a", value: "b")', "to_int(1, 2, 3)",  # wrong arguments
    "if 1 { 2 }", 'if "a" { 1 } else { 2 }', "if .a { 1 }", "if to_int(.a) { 1 }",                 # predicate
    "abort 1", "abort to_int(.a)", "abort nope",                                                    # abort message
    "for_each(1) -> |a, b| { a }", "for_each(.a) -> |k| { k }", "map_values({}) { 1 }",
    "for_each({}) -> |k, v| { return 1 }", "filter([1]) -> |i, v| { 1 }", "upcase(.a) -> |x| { x }",
    "x = 1\nx.b = 2", ".a = 1\n.a.b = 2", "x = [1]\nx.b = 2", 'x = "s"\nx[0] = 1', "x = 1\nx.b.c[0] = 2",  # E642
    "to_string!(1)", "upcase!(\"a\")", "a, err = 1", "x, err = upcase(\"a\")", "_, _ = to_int(.a)",
    "_ = 1", "string = 1", "if = 1", "null = 1", "true.a", "x = 1\nx = 2\n3",
    "1; 2", '{"a": 1}; .x', "[1]; .y", ".a; 1", '"s"; 2', "x = 1\nx\n2",                              # unused expression warnings
    "r'('", "r'[é'", "t'2020'", "t'é'", "t'2020-01-01T00:00:00+25:00'", "s'abc", "r'a' + 1",
    "99999999999999999999", "1.7976931348623157e400", "1.2.3", "1e", "0x1", "1_000", "- 1", "1 +",
    "1 == 1 == 1", "1 < 2 < 3", "! ! 1", "1 +* 2", ".a[", ".a[1", ".a[x]", ".a.(b | c) = 1", ".(a | b)", "%", "%.a", ".a.b.",
    '"\\q"', '"\\u{110000}"', '"\\u{}"', '"\\u{d800}"', '"\\u{zz}"', '"\\u{1F600"', '"{{ x }"', '"{{ }}"', '"{{ 1 + }}"', '"{{ nope }}"',
    "{", "}", "[", "]", "(", ")", "{ 1", "[1, ", '{"a": }', '{"a" 1}', "{a: 1}", "[1 2]", "(1", "1)", ";", ";;", ",",
    ". = 1\n.a.b = 2", "%m = 1\n%m.b = 2", ".a = {}\n.a.b.c = 1\n.a.b.c.d = 2", 'del(1)', "del(x)", "exists(1)",
    "return", "return nope", "abort", "if true { abort } else { return 1 }; 2", "x = if true { 1 }", "unless true { 1 }",
    "while true { 1 }", "loop { }", "try { 1 }", "x = y = nope", ".a |= 1", "x |= {}", ".a = .b ?? .c ?? nope",
    "match(.a, r'a')", "replace(\"a\", r'(', \"b\")", 'parse_regex!("a", r\'(?P<é>a)\')', "parse_grok!(\"a\", \"%{NOPE}\")",
    'format_timestamp!(now(), "%Q")', "to_unix_timestamp(now(), unit: \"weeks\")", "encode_base64(\"a\", charset: \"x\")",
    "get_env_var(\"A\", 1)", 'log("a", level: "nope")', "assert(1)", 'assert!(false, message: 1)', "random_int(2, 1)",
    'ip_cidr_contains("nope", "1.1.1.1")', "parse_duration!(\"1s\", \"fortnight\")", "now(1)", "uuid_v4(x: 1)",
]
RO_TEMPLATES = [(".a = 1", [".a"]), (".a.b = 1", [".a"]), ("del(.a)", [".a"]), (".a, err = to_int(.b)", [".a"]),
                (". = {}", [".a"]), (".b = 1\n.a =\u3000 2", [".a"]), ("%m = 1", ["%m"]), (".a |= {}", [".a"])]


# ------------------------------------------------------------------------------------------------
# assignments through a non-object parent: E642, the spans are compared with the model
# ------------------------------------------------------------------------------------------------

FIELD_FORMS = [
    # (source text of the segment after its '.', the field it denotes)
    ("b", "b"), ("c_1", "c_1"), ("@t", "@t"), ("0a", "0a"), ("if", "if"), ("null", "null"), ("Z9_", "Z9_"),
    ('"b"', "b"), ('"b c"', "b c"), ('"a.b"', "a.b"), ('""', ""), ('"0"', "0"), ('"é ü"', "é ü"), ('"日本"', "日本"),
    ('"🎉"', "🎉"), ('"é"', "é"), ('"é\\t"', "é\t"), ('"é\\t\\t"', "é\t\t"), ('"日\\n\\n\\n"', "日\n\n\n"),
    ('"\\u{e9}x"', "éx"), ('"é\\u{e9}"', "éé"), ('"日本\\u{1F600}"', "日本😀"), ('"a\\"b"', 'a"b'), ('"\\\\"', "\\"),
    ('"é\\"\\"ü"', 'é""ü'), ('"שלום\\t"', "שלום\t"), ('"\\{ü\\}"', "{ü}"), ('"ü\\0\\0"', "ü\0\0"), ('"a\\\n   b"', "ab"),
    ('"é\\\n  \\\n x"', "éx"),
]
INDEX_FORMS = [("[0]", 0), ("[1]", 1), ("[-1]", -1), ("[12]", 12), ("[-100]", -100)]
ROOT_DECLS = [("x", "x = 1\n", []), ("yy", 'yy = "日本"\n', []), ("x", "x = [1, 2]\n", None), (".a", ".a = 1\n", ["a"]),
              (".a", '.a = "s"\n', ["a"]), (".a.b", ".a.b = true\n", ["a", "b"]), ('."é"', '."é" = 1\n', ["é"]),
              (".", ". = 1\n", None)]


def assign_case(rng):
    """a program whose last statement assigns through a parent that is not an object / array"""
    root, decl, rootsegs = rng.choice([d for d in ROOT_DECLS if d[2] is not None])
    nseg = rng.choice([1, 1, 2, 3])
    segs = []
    text = root
    for k in range(nseg):
        last = k == nseg - 1
        if rng.random() < 0.8 or (k == 0 and root == "."):
            srcf, val = rng.choice(FIELD_FORMS)
            text += ("" if text == "." else ".") + srcf
            segs.append({"f": h(val)})
        else:
            srci, val = rng.choice(INDEX_FORMS)
            text += srci
            segs.append({"i": str(val)})
    pre = rng.choice(["", "", "", "# %s\n" % rand_uni(rng), '"%s"\n' % rand_uni(rng), "z = \"%s\"; " % rand_uni(rng), "  ", "\t",
                      "if true { ", "{ "])
    closing = {"if true { ": " }", "{ ": " }"}.get(pre, "")
    form = rng.random()
    head = decl + pre
    if form < 0.7:
        stmt = text + rng.choice([" = ", "=", " =\t", " = \n  "]) + rng.choice(["2", '"é"', "{}", "[.q]", "to_string(1)"])
        tstart = len(head.encode("utf-8"))
    elif form < 0.85:
        stmt = text + ", err = to_int(.q)"
        tstart = len(head.encode("utf-8"))
    else:
        stmt = "ok, " + text + " = to_int(.q)"
        tstart = len((head + "ok, ").encode("utf-8"))
    src = head + stmt + closing + rng.choice(["", "\n", "\n.z = 1\n", " # " + rand_uni(rng)])
    tend = tstart + len(text.encode("utf-8"))
    return {"kind": "assign", "src": h(src), "segs": [{"f": h(s)} for s in rootsegs] + segs,
            "assign": {"tstart": tstart, "tend": tend, "nsegs": len(rootsegs) + len(segs)}}


def gen_cases(run, n):
    rng = run.rng
    g = corevrl.Gen(rng)
    cases = []
    # the templates, bare and decorated
    for t in ERROR_TEMPLATES:
        cases.append({"kind": "template", "src": h(t)})
    for t, ro in RO_TEMPLATES:
        cases.append({"kind": "readonly", "src": h(t), "ro": [{"path": p, "recursive": True} for p in ro]})
    for _ in range(n):
        r = rng.random()
        if r < 0.12:
            cases.append({"kind": "valid", "src": h(valid_program(rng, g))})
        elif r < 0.32:
            src = valid_program(rng, g)
            src = mutate_tokens(rng, src) if rng.random() < 0.6 else mutate_chars(rng, src)
            cases.append({"kind": "mutated", "src": h(src)})
        elif r < 0.5:
            src = valid_program(rng, g)
            for _ in range(rng.choice([1, 1, 2])):
                src = decorate(rng, src)
            if rng.random() < 0.3:
                src = mutate_tokens(rng, src)
            cases.append({"kind": "unicode", "src": h(src)})
        elif r < 0.75:
            t = rng.choice(ERROR_TEMPLATES)
            for _ in range(rng.choice([1, 1, 2, 3])):
                t = decorate(rng, t)
            if rng.random() < 0.25:
                t = mutate_chars(rng, t)
            if rng.random() < 0.3:     # among valid statements
                t = valid_program(rng, g) + rng.choice(["\n", "\r\n", "; "]) + t
            cases.append({"kind": "template", "src": h(t)})
        elif r < 0.8:
            t, ro = rng.choice(RO_TEMPLATES)
            t = decorate(rng, t)
            cases.append({"kind": "readonly", "src": h(t), "ro": [{"path": p, "recursive": True} for p in ro]})
        else:
            cases.append(assign_case(rng))
    return cases


# ------------------------------------------------------------------------------------------------
# rendering as Gallina
# ------------------------------------------------------------------------------------------------

def coq_rstat(s):
    return "RendOk" if s == "ok" else "RendErr" if s == "err" else "RendPanic"


def coq_label(l):
    return "mkLabel %d %d %s %s %s" % (l["start"], l["end"], coq_bool(l["primary"]), coq_bool(l["sb"]), coq_bool(l["eb"]))


def coq_diag(d):
    return "mkDiag %d [%s] %s %s" % (d["code"], "; ".join(coq_label(l) for l in d["labels"]), coq_rstat(d["plain"]),
                                     coq_rstat(d["colored"]))


def coq_src(hexs, chunk=400):
    """a long string literal overflows coqc's stack: the source as a concatenation of short pieces"""
    if len(hexs) <= chunk:
        return '(hx "%s")' % hexs
    return "(%s)%%list" % " ++ ".join('hx "%s"' % hexs[i:i + chunk] for i in range(0, len(hexs), chunk))


def to_coq(c, o):
    comp = {"ok": "CompOk", "err": "CompErr", "panic": "CompPanic"}[o["compile"]]
    asg = "None"
    if "assign" in c:
        if len(c["segs"]) != c["assign"]["nsegs"] or len(o.get("seg_lens", [])) != c["assign"]["nsegs"]:
            raise ValueError("inconsistent assignment case (a shrinking step dropped a segment)")
        segs = []
        for s, n in zip(c["segs"], o["seg_lens"]):
            segs.append(("SegField %d" if "f" in s else "SegIndex %d") % n)
        asg = "(Some (mkAssign (mkSpan %d %d) [%s]))" % (c["assign"]["tstart"], c["assign"]["tend"], "; ".join(segs))
    return '(Case %s %s [%s] %s %s %s)' % (coq_src(c["src"]), comp, "; ".join(coq_diag(d) for d in o["diags"]),
                                           coq_rstat(o["all_plain"]), coq_rstat(o["all_colored"]), asg)


# ------------------------------------------------------------------------------------------------
# known findings: every bad label of the case must be explained by one of the recorded classes
# ------------------------------------------------------------------------------------------------

def char_at(src_b, pos):
    """(start, end, char) of the character of the UTF-8 text src_b that covers byte position pos, or None"""
    if pos >= len(src_b):
        return None
    s = pos
    while s > 0 and (src_b[s] & 0xC0) == 0x80:
        s -= 1
    e = s + 1
    while e < len(src_b) and (src_b[e] & 0xC0) == 0x80:
        e += 1
    return s, e, src_b[s:e].decode("utf-8", "replace")


def bad_labels(o):
    out = []
    for d in o["diags"]:
        for l in d["labels"]:
            if not (l["start"] <= l["end"] <= o["len"] and l["sb"] and l["eb"]):
                out.append((d, l))
    return out


def explain(c, o):
    """the classes of recorded findings that account for every violation in this output; [] if one is unexplained"""
    if o.get("compile") == "panic":
        return []
    if o["all_plain"] != "ok" or o["all_colored"] != "ok" or any(d["plain"] != "ok" or d["colored"] != "ok" for d in o["diags"]):
        return []
    src_b = bytes.fromhex(c["src"])
    src = src_b.decode("utf-8")
    classes = set()
    for d, l in bad_labels(o):
        why = None
        if d["code"] in (207, 208, 209, 210, 211) and l["end"] == l["start"] + 1 and l["start"] >= 1 \
                and src_b[l["start"] - 1:l["start"]] == b'"' and (not l["eb"] or l["end"] > o["len"]):
            # a literal error found by the query look-ahead inside { } [ ] ( ): positions offset by pos + 1
            why = "lookahead-literal-offset"
        if why is None and not (l["start"] <= l["end"] <= o["len"]):
            return []                      # out of range or inverted: nothing else recorded explains that
        if d["code"] == 642:
            # verify_overwritable: a quoted segment whose source text has escapes (printed form shorter than the source)
            if "\\" in src and any(ord(ch) > 127 for ch in src):
                why = "assign-escaped-field"
        if why is None and l["end"] - l["start"] == 1 and l["sb"] and not l["eb"]:
            # lexer errors built as Span::new(start, start + 1) on a multi-byte character
            ca = char_at(src_b, l["start"])
            if ca and ca[1] - ca[0] > 1 and d["code"] in (202, 203, 205, 206, 207, 208, 209, 210, 211):
                why = "lexer-start-plus-one"
        if why is None and l["sb"] and not l["eb"]:
            # Assignment::new: assignment_span ends at expr_span.start() - 1, inside a multi-byte white-space character
            ca = char_at(src_b, l["end"])
            if ca and ca[1] == l["end"] + 1 and ca[2].isspace() and l["start"] < l["end"]:
                why = "assignment-span-minus-one"
        if why is None:
            # template strings: segment spans are computed in characters and added to a byte offset
            before = src_b[:l["end"]].decode("utf-8", "ignore")
            k = before.rfind('"', 0, max(0, len(src_b[:l["start"]].decode("utf-8", "ignore"))) + 1)
            if "{{" in src and k >= 0 and any(ord(ch) > 127 for ch in src[k:]):
                why = "template-char-offsets"
        if why is None:
            return []
        classes.add(why)
    return sorted(classes)


def known_matcher(entry, case, out):
    if not isinstance(out, dict) or "diags" not in out:
        return False
    return entry["match"]["class"] in explain(case, out)


def nontrivial(c):
    return True


def extra_cov(cases, outs):
    codes = {}
    nd = nl = 0
    for o in outs:
        if isinstance(o, dict):
            for d in o.get("diags", []):
                codes[str(d["code"])] = codes.get(str(d["code"]), 0) + 1
                nd += 1
                nl += len(d["labels"])
    return {"diagnostics_seen": nd, "labels_checked": nl, "diagnostic_codes": codes,
            "e642_cases_compared_with_model": sum(1 for c in cases if "assign" in c)}


def main(run, args):
    import checklib
    n = 2500 if run.tier == "quick" else 30000
    if args.cases:
        n = args.cases
    return checklib.standard(run, ID, THEOREMS, IMPORTS, "diag", gen_cases, to_coq, n, nontrivial=nontrivial,
                             replay=args.replay, known_matcher=known_matcher, extra_cov=extra_cov)
