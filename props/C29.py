"""C29 — Numeric functions return mathematically correct results."""
import math
import struct
from fractions import Fraction

import vlib
from vlib import coq_value, coq_z, ji, jf_bits, js, jb, jts
import gen

ID = "C29"
THEOREMS = ["C29_abs", "C29_abs_float", "C29_abs_min_wraps", "C29_mod_sign", "C29_mod_zero", "C29_rint_exact",
            "C29_rint_fixed", "C29_rint_sign", "C29_round_precision0", "C29_round_precision0_inhabited",
            "C29_round_bound_partial", "C29_round_bound_partial_inhabited",
            "C29_round_range_refuted", "C29_round_big_refuted", "C29_round_inexact_mult_refuted",
            "C29_round_product_refuted", "C29_round_int", "C29_to_int_trunc", "C29_conv_consistent",
            "C29_conv_int_text_float", "C29_float_text",
            "C29_float_text_inhabited"]
ALLOWED_AXIOMS = ("ClassicalDedekindReals.sig_forall_dec", "ClassicalDedekindReals.sig_not_dec",
                  "FunctionalExtensionality.functional_extensionality_dep", "Classical_Prop.classic")
IMPORTS = ("From Coq Require Import List ZArith String.\nFrom Coq Require Import Floats.SpecFloat.\n"
           "From VRL Require Import Base.Bytes Base.Value Base.Lit Model.ConvRes Model.Arith Model.IntText "
           "Model.NumFns Corr.C29.\nLocal Open Scope string_scope.")
MANIFEST = {
    "level": "proof",
    "technique": "Coq proofs (integer arithmetic on mantissas; Flocq for the real-valued bound) on a hand model of the numeric "
                 "stdlib functions + differential correspondence vs the Rust + exact-arithmetic oracle on the implementation",
    "text": "Partial. Proved about the model Model/NumFns.v: abs = wrap64 |z| on every i64 (|z| except at MIN, which wraps to itself) and sign-clearing on floats; integer mod "
            "obeys a = b*trunc(a/b)+r, |r|<|b|, sign of the dividend; exact semantics of f64::floor/ceil/round on (sign, mantissa, "
            "exponent); round/ceil/floor at precision 0 satisfy the property exactly for every finite float; for any precision "
            "the bound |y-x| <= 10^-p + ulp(y)/2 with ceil >= x, floor <= x holds in the regime where multiplier and product are "
            "exact (C29_round_bound_partial) and is REFUTED in each of the other four regimes (known findings, witnesses replayed "
            "on the implementation); parse_int/to_int invert to_string on every i64, to_float(to_string z) = to_float z on every "
            "i64, to_int(to_float z) = z up to 2^53, `f as i64` truncates. (abs(i64::MIN) panicked before /repo b0e107f: finding fixed.) The model is tied "
            "to the code by bitwise comparison on generated cases (float bit patterns, precisions in [-400,400] and i64 "
            "extremes, numeric strings), the implementation's powf(10,p) is checked for faithfulness for all p in [-400,400].",
    "note": "Trusted: Coq kernel + vm_compute; the hand-written model (tied by correspondence only); libm powf is a parameter "
            "`pow10` of the model (glibc's is not correctly rounded: 10^23, 10^210 are one ulp high; theorems assume only "
            "pow10 0 = 1.0, resp. pow10 p = 10^p exactly in the good regime); f64 Display and RFC 3339 printing are parameters "
            "of to_string (C29_float_text is conditional on the printed text reading back, which the oracle checks on the "
            "implementation for every generated float); str::parse::<f64> is modelled as the correctly rounded decimal parser. "
            "Axioms: the real-valued theorems (C29_round_precision0, C29_round_bound_partial, second half of "
            "C29_conv_consistent) depend on Flocq's four classical-reals axioms (sig_forall_dec, sig_not_dec, "
            "functional_extensionality_dep, classic); all others are closed. The oracle allows ulp(y)/2 on the distance "
            "(representation error of the result), nothing on the directions.",
    "design_ref": "DESIGN.md section 5 C29; notes/C29.md",
}

I64_MIN, I64_MAX = -2**63, 2**63 - 1
RKINDS = {"round": "KRound", "ceil": "KCeil", "floor": "KFloor"}


# ------------------------------------------------------------------------------------------------
# floats as bit patterns
# ------------------------------------------------------------------------------------------------

def bits_of(x):
    return struct.unpack("<Q", struct.pack("<d", x))[0]


def float_of(bits):
    return struct.unpack("<d", struct.pack("<Q", bits))[0]


def frac_of_bits(bits):
    """exact rational value of a finite binary64 bit pattern"""
    return Fraction(float_of(bits))


HALFWAY = [2.675, 1.005, 0.285, 1.45, 8.345, 4.345, 5.45, 0.125, 0.375, 2.5, 3.5, -2.5, 0.5, -0.5, 1.15, 1.25, 1.35,
           0.1, 0.2, 0.3, 0.7, 1.1, 2.2, 1234.5678, -1234.5678, 1e-7, 123456789.123456789, 0.49999999999999994,
           0.5000000000000001, 4503599627370495.5, 4503599627370496.0, 4503599627370497.0, 9007199254740991.0,
           9007199254740992.0, 9007199254740994.0, -4503599627370495.5, 2251799813685247.8, 1.5e300, -1.5e300, 1e308,
           1.7976931348623157e308, 1e-300, 5e-324, 2.2250738585072014e-308, 1e22, 1e23, 123456.5, 99.995, 0.995,
           9.995, 0.045, 1e15 + 0.5, 1e16, 3e19, 0.3e-5, 5.0, 1200.0, 100.0, 50.0, 150.0, -150.0, 1e300, 7.0]
PRECS = [0, 0, 0, 1, 2, 2, 3, 4, 5, 10, 15, 16, 17, 20, 22, 23, 24, 30, 100, 200, 300, 307, 308, 309, 310, 323, 324, 325,
         400, -1, -2, -3, -5, -10, -22, -23, -100, -300, -307, -308, -309, -323, -324, -325, -400, 2**31, -2**31,
         2**53 + 1, I64_MAX, I64_MIN]


def rand_fbits(rng):
    """finite or infinite (never NaN) float bit pattern, biased to interesting values"""
    while True:
        r = rng.random()
        if r < 0.22:
            b = bits_of(rng.choice(HALFWAY))
            if rng.random() < 0.3:
                b = (b + rng.randint(-2, 2)) % 2**64
        elif r < 0.32:
            b = gen.rand_float_bits(rng)
        elif r < 0.52:      # short decimals
            k = rng.randint(0, 8)
            x = rng.randint(-10**rng.randint(1, 9), 10**rng.randint(1, 9)) / 10**k
            b = bits_of(x)
        elif r < 0.62:      # k + 0.5 and neighbours
            b = bits_of(rng.randint(-10**rng.randint(0, 15), 10**rng.randint(0, 15)) + 0.5)
            b = (b + rng.choice([0, 0, 0, 1, -1])) % 2**64
        elif r < 0.72:      # around 2^52 / 2^53 / 2^63
            b = bits_of(float(2**rng.choice([51, 52, 52, 53, 53, 54, 62, 63, 64]))) + rng.randint(-4, 4)
            if rng.random() < 0.5:
                b |= 1 << 63
        elif r < 0.8:       # any exponent, random mantissa
            b = (rng.getrandbits(1) << 63) | (rng.randint(0, 2046) << 52) | rng.getrandbits(52)
        elif r < 0.9:       # moderate exponent
            b = (rng.getrandbits(1) << 63) | (rng.randint(1023 - 40, 1023 + 70) << 52) | rng.getrandbits(52)
        else:
            b = rng.getrandbits(64)
        e = (b >> 52) & 0x7ff
        if e == 0x7ff and (b & (2**52 - 1)) != 0:
            continue
        return b


def rand_prec(rng):
    r = rng.random()
    if r < 0.5:
        return rng.randint(-5, 20)
    if r < 0.75:
        return rng.choice(PRECS)
    if r < 0.95:
        return rng.randint(-400, 400)
    return rng.choice([rng.randint(-10**6, 10**6), rng.randint(I64_MIN, I64_MAX)])


def rand_i64(rng):
    return gen.clamp_i64(gen.rand_int(rng))


FLOAT_STRS = ["0", "-0", "+0", "0.0", "1", "-1", "1.5", "2.675", ".5", "5.", ".", "+.5e-3", "1e5", "1E5", "1e+5", "1e-5",
              "1e", "1e+", "e5", "", "+", "-", "inf", "-inf", "+inf", "Infinity", "-INFINITY", "infinit", "nan", "NaN",
              "-nan", " 1", "1 ", "1_0", "0x10", "1e400", "-1e400", "1e-400", "1e309", "1.7976931348623157e308",
              "1.7976931348623159e308", "2.2250738585072014e-308", "4.9e-324", "2.4703282292062327e-324",
              "2.4703282292062328e-324", "2.47032822920623272e-324", "9007199254740993", "9007199254740992.5",
              "9007199254740993.0000000000000000000000000001", "0.1", "0.30000000000000004", "123456789012345678901234567890",
              "0.000000000000000000000000000000000000000000001", "1e99999999999", "-1e-99999999999", "0e99999999999",
              "1e65535", "1e65536", "1e-65537", "00000000000000000000000000001.50", "1.e3", "1.0e0003", "١", "1,5", "1.5.2",
              "--1", "+-1", "1e5.0", "9223372036854775807", "9223372036854775808", "-9223372036854775808", "1e23",
              "8.5e22", "1e22", "8.41e21", "2.2250738585072011e-308", "6.5", "true"]
INT_STRS = ["0", "-0", "+0", "00", "007", "1", "-1", "+1", "42", "-42", " 42", "42 ", "4 2", "", "+", "-", "--1", "+-1",
            "9223372036854775807", "9223372036854775808", "-9223372036854775808", "-9223372036854775809",
            "99999999999999999999", "1.0", "1e3", "0x10", "0b101", "0o17", "0xff", "0XFF", "0xg", "0x", "0b", "0b2",
            "abc", "z", "Z", "١", "1_000", "-0x10", "0x-10", "7fffffffffffffff", "-8000000000000000", "8000000000000000",
            "ff", "zz", "10", "-10", "+10", "1١", "010", "0777", "08", "0o", "0b0", "0x0", "00x10"]


def rand_num_string(rng):
    r = rng.random()
    if r < 0.3:
        return rng.choice(FLOAT_STRS + INT_STRS)
    if r < 0.5:
        return str(rand_i64(rng))
    if r < 0.7:     # decimal literal with random shape
        s = rng.choice(["", "", "-", "+"])
        s += "".join(rng.choice("0123456789") for _ in range(rng.randint(0, rng.choice([3, 20, 40]))))
        if rng.random() < 0.7:
            s += "." + "".join(rng.choice("0123456789") for _ in range(rng.randint(0, rng.choice([3, 20, 40]))))
        if rng.random() < 0.4:
            s += rng.choice("eE") + rng.choice(["", "-", "+"]) + str(rng.randint(0, rng.choice([5, 30, 350])))
        return s
    if r < 0.85:    # the repr of a random float, sometimes with more digits (half-way cases of the parser)
        x = float_of(rand_fbits(rng))
        if math.isinf(x):
            return "inf"
        if rng.random() < 0.5:
            return repr(x)
        fr = Fraction(abs(x)) + Fraction(float_of(bits_of(abs(x)) + 1)) if abs(x) < 1e308 else Fraction(abs(x)) * 2
        # the exact midpoint between |x| and its successor, written out in full when short enough
        mid = fr / 2
        txt = "%d" % mid if mid.denominator == 1 else repr(x)
        if mid.denominator != 1 and abs(x) > 1e-30 and abs(x) < 1e30:
            n, d = mid.numerator, mid.denominator      # d is a power of two: exact decimal expansion exists
            k = d.bit_length() - 1
            txt = "%d" % (n * 5**k)
            txt = (txt[:-k] or "0") + "." + txt[-k:].rjust(k, "0") if k else txt
        return txt
    # mutate a good one
    s = list(rng.choice(FLOAT_STRS + INT_STRS))
    if s:
        i = rng.randrange(len(s))
        s[i] = rng.choice("0123456789.eE+-_ xa")
    return "".join(s)


def rand_any_value(rng):
    r = rng.random()
    if r < 0.3:
        return ji(rand_i64(rng))
    if r < 0.55:
        return jf_bits(rand_fbits(rng))
    if r < 0.75:
        return js(rand_num_string(rng))
    if r < 0.8:
        return rng.choice([True, False])
    if r < 0.84:
        return None
    if r < 0.92:
        return jts(rng.choice([0, 1, -1, 10**9, -10**9, 999999999, -999999999, 1600000000 * 10**9 + 123456789,
                               -(10**15), 253402300799 * 10**9, I64_MAX, I64_MIN, I64_MAX + 1, I64_MIN - 1,
                               -1500000000, 1500000000, rng.randint(-2**62, 2**62)]))
    if r < 0.95:
        return jb(bytes(rng.randrange(256) for _ in range(rng.randint(0, 4))))
    return gen.rand_value(rng, depth=1)


# ------------------------------------------------------------------------------------------------
# cases
# ------------------------------------------------------------------------------------------------

def mk(op, ev, srcs, **kw):
    steps = []
    for s in srcs:
        if isinstance(s, tuple):
            steps.append({"src": s[0], "out": s[1]})
        else:
            steps.append({"src": s})
    c = {"op": op, "ev": ev, "steps": steps}
    c.update(kw)
    return c


def case_round(kind, x, p):
    """p: None (default precision) or a vj value"""
    if p is None:
        return mk(kind, {"x": x}, ["%s!(.x)" % kind], pow10="0")
    pe = p["i"] if isinstance(p, dict) and "i" in p else "0"
    return mk(kind, {"x": x, "p": p}, ["%s!(.x, precision: .p)" % kind], pow10=pe)


def case_conv_int(z):
    return mk("conv_int", {"x": ji(z)}, [("to_string!(.x)", "s"), "parse_int!(.s)", "to_int!(.s)", ("to_float!(.x)", "f"),
                                         "to_int!(.f)", "to_float!(.s)"])


def case_conv_float(bits):
    return mk("conv_float", {"x": jf_bits(bits)}, [("to_string!(.x)", "s"), "parse_float!(.s)", "to_float!(.s)",
                                                   ("to_int!(.x)", "n"), "to_float!(.n)"])


def gen_cases(run, n):
    rng = run.rng
    cases = [mk("pow10", {}, [], pow10=str(p)) for p in range(-400, 401)]
    cases += [mk("pow10", {}, [], pow10=str(p)) for p in (I64_MAX, I64_MIN, 2**53 + 1, -(2**53) - 1, 1000, -1000)]
    for _ in range(n):
        r = rng.random()
        if r < 0.45:
            kind = rng.choice(["round", "ceil", "floor"])
            rr = rng.random()
            if rr < 0.85:
                x = jf_bits(rand_fbits(rng))
            elif rr < 0.95:
                x = ji(rand_i64(rng))
            else:
                x = rand_any_value(rng)
            rp = rng.random()
            if rp < 0.15:
                p = None
            elif rp < 0.97:
                p = ji(rand_prec(rng))
            else:
                p = rand_any_value(rng)
            cases.append(case_round(kind, x, p))
        elif r < 0.52:
            x = ji(rand_i64(rng)) if rng.random() < 0.5 else rand_any_value(rng)
            cases.append(mk("abs", {"x": x}, ["abs!(.x)"]))
        elif r < 0.64:
            rr = rng.random()
            if rr < 0.4:
                x, y = ji(rand_i64(rng)), ji(rand_i64(rng))
            elif rr < 0.8:
                x, y = jf_bits(rand_fbits(rng)), jf_bits(rand_fbits(rng))
                if rng.random() < 0.3:
                    x = ji(rand_i64(rng))
                elif rng.random() < 0.3:
                    y = ji(rand_i64(rng))
            else:
                x, y = rand_any_value(rng), rand_any_value(rng)
            cases.append(mk("mod", {"x": x, "y": y}, ["mod!(.x, .y)"]))
        elif r < 0.72:
            cases.append(case_conv_int(rand_i64(rng)))
        elif r < 0.80:
            cases.append(case_conv_float(rand_fbits(rng)))
        elif r < 0.84:
            cases.append(mk("to_int", {"x": rand_any_value(rng)}, ["to_int!(.x)"]))
        elif r < 0.88:
            cases.append(mk("to_float", {"x": rand_any_value(rng)}, ["to_float!(.x)"]))
        elif r < 0.91:
            cases.append(mk("to_string", {"x": rand_any_value(rng)}, ["to_string!(.x)"]))
        elif r < 0.96:
            x = js(rand_num_string(rng)) if rng.random() < 0.9 else rand_any_value(rng)
            cases.append(mk("parse_float", {"x": x}, ["parse_float!(.x)"]))
        else:
            x = js(rand_num_string(rng)) if rng.random() < 0.9 else rand_any_value(rng)
            rb = rng.random()
            if rb < 0.4:
                cases.append(mk("parse_int", {"x": x}, ["parse_int!(.x)"]))
            else:
                b = ji(rng.choice([2, 8, 10, 16, 36, 1, 37, 0, -1, rng.randint(2, 36)])) if rb < 0.95 else rand_any_value(rng)
                cases.append(mk("parse_int", {"x": x, "b": b}, ["parse_int!(.x, base: .b)"]))
    return cases


# ------------------------------------------------------------------------------------------------
# rendering
# ------------------------------------------------------------------------------------------------

def coq_iout(o):
    if "ok" in o:
        return "(IOk %s)" % coq_value(o["ok"])
    if "panic" in o:
        return "IPanic"
    if o.get("err") == "error":
        return "IErr"
    raise ValueError("unexpected step result %r" % (o,))


def coq_optv(v, present):
    return "(Some %s)" % coq_value(v) if present else "None"


def coq_float_bits(h):
    return "(f64_of_bits 0x%s)" % h


def to_coq(c, o):
    op = c["op"]
    st = o["steps"]
    ev = c["ev"]
    if op == "pow10":
        return "CPow %s %s" % (coq_z(c["pow10"]), coq_float_bits(o["pow10"]))
    if op in RKINDS:
        cls = case_class(c, o)
        return "CRound %s %s %s %s %s %s %s" % (RKINDS[op], coq_value(ev["x"]), coq_optv(ev.get("p"), "p" in ev),
                                                coq_z(c["pow10"]), coq_float_bits(o["pow10"]),
                                                "(Some %s)" % cls if cls else "None", coq_iout(st[0]))
    if op == "abs":
        return "CAbs %s %s" % (coq_value(ev["x"]), coq_iout(st[0]))
    if op == "mod":
        return "CMod %s %s %s" % (coq_value(ev["x"]), coq_value(ev["y"]), coq_iout(st[0]))
    if op == "to_int":
        return "CToInt %s %s" % (coq_value(ev["x"]), coq_iout(st[0]))
    if op == "to_float":
        return "CToFloat %s %s" % (coq_value(ev["x"]), coq_iout(st[0]))
    if op == "to_string":
        return "CToString %s %s" % (coq_value(ev["x"]), coq_iout(st[0]))
    if op == "parse_float":
        return "CParseFloat %s %s" % (coq_value(ev["x"]), coq_iout(st[0]))
    if op == "parse_int":
        return "CParseInt %s %s %s" % (coq_value(ev["x"]), coq_optv(ev.get("b"), "b" in ev), coq_iout(st[0]))
    if op == "conv_int":
        return "CConvInt %s %s" % (coq_z(ev["x"]["i"]), " ".join(coq_iout(s) for s in st))
    if op == "conv_float":
        return "CConvFloat %s %s" % (coq_float_bits(ev["x"]["f"]), " ".join(coq_iout(s) for s in st))
    raise ValueError("unknown op %r" % op)


def nontrivial(c):
    return c["op"] != "pow10"


# ------------------------------------------------------------------------------------------------
# the regimes of round_to_precision (mirrors Model/NumFns.v round_class; `check` compares the two on every case)
# ------------------------------------------------------------------------------------------------

def f_rint(kind, t):
    if math.isinf(t) or math.isnan(t) or abs(t) >= 2.0**52:
        return t
    if kind == "floor":
        return math.copysign(float(math.floor(t)), t) if math.floor(t) == 0 else float(math.floor(t))
    if kind == "ceil":
        return math.copysign(float(math.ceil(t)), t) if math.ceil(t) == 0 else float(math.ceil(t))
    n = math.floor(abs(t))
    if abs(t) - n >= 0.5:        # exact: |t| < 2^52
        n += 1
    return math.copysign(float(n), t)


def round_class(kind, xbits, p, mbits):
    x, m = float_of(xbits), float_of(mbits)
    if math.isinf(m) or math.isnan(m) or m == 0:
        return "RcRange"
    t = x * m
    if x != 0 and (t == 0 or math.isinf(t)):
        return "RcRange"
    q = f_rint(kind, t) / m
    if math.isinf(q) or math.isnan(q):
        return "RcRange"
    if abs(t) >= 2.0**52:
        return "RcBig"
    if p < 0 or p > 22:
        return "RcInexactMult"
    if Fraction(x) * Fraction(m) != Fraction(t):
        return "RcProductRounds"
    return "RcGood"


def case_class(case, out):
    """regime of a round/ceil/floor case with a finite float argument and an integer (or default) precision"""
    if case["op"] not in RKINDS:
        return None
    x = case["ev"].get("x")
    if not (isinstance(x, dict) and "f" in x):
        return None
    if "p" in case["ev"] and not (isinstance(case["ev"]["p"], dict) and "i" in case["ev"]["p"]):
        return None
    xb = int(x["f"], 16)
    if (xb >> 52) & 0x7ff == 0x7ff:
        return None
    return round_class(case["op"], xb, int(case["pow10"]), int(out["pow10"], 16))


def known_matcher(entry, case, out):
    m = entry["match"]
    if m.get("op") == "round":
        cls = case_class(case, out)
        return cls is not None and cls != "RcGood" and cls == m["class"]
    return False


def main(run, args):
    import checklib
    n = 3000 if run.tier == "quick" else 40000
    if args.cases:
        n = args.cases
    return checklib.standard(run, ID, THEOREMS, IMPORTS, "numfn", gen_cases, to_coq, n, nontrivial=nontrivial,
                             replay=args.replay, known_matcher=known_matcher, allowed_axioms=ALLOWED_AXIOMS)
